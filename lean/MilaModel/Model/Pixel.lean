/-
Model of `src/texture_decoder.rs`, `src/pixel_encodings.rs`, `src/texture_utils.rs` and the size /
block tables of `src/tpl.rs` (C19, used by C20).

Conventions.  Byte buffers that are indexed at random (`&[u8]` inputs, the `bmp` output vector) are
`Buf = Array UInt8` so that the compiled driver reads and writes in O(1); everything is total.
`x >> k` is written `x / 2^k`, `x & (2^k-1)` is written `x % 2^k`, `as u8` is `% 256` (M2).
`for i in 0..n` is `forRange n body` (structural recursion on the count, M7).
Arithmetic that can leave `usize` for *some* arguments of the function (the size of the output
vector, `4 * width * height`) goes through the `Profile`; everything else is plain `Nat` and is
covered by the domain hypotheses of the theorems (`width, height < 2^16`).
-/
import MilaModel.Basic

namespace Mila

abbrev Buf := Array UInt8

/-- `for i in start..start+n { s = body(i, s)? }` -/
def forRangeFrom {σ : Type} (body : Nat → σ → Res σ) : Nat → Nat → σ → Res σ
  | 0, _, s => .ok s
  | n + 1, i, s =>
    match body i s with
    | .ok s' => forRangeFrom body n (i + 1) s'
    | .err e => .err e
    | .panic => .panic

/-- `for i in 0..n { s = body(i, s)? }` -/
def forRange {σ : Type} (n : Nat) (body : Nat → σ → Res σ) (s : σ) : Res σ :=
  forRangeFrom body n 0 s

namespace Buf

/-- byte `i` as a number (0 outside the buffer; every use is guarded by a length test). -/
def byteAt (d : Buf) (i : Nat) : Nat := (d.getD i 0).toNat

/-- little-endian value of the `n` bytes at `pos`. -/
def leN (d : Buf) (pos : Nat) : Nat → Nat
  | 0 => 0
  | n + 1 => byteAt d pos + 256 * leN d (pos + 1) n

/-- big-endian value of the `n` bytes at `pos`. -/
def beN (d : Buf) (pos : Nat) : Nat → Nat
  | 0 => 0
  | n + 1 => byteAt d pos * 256 ^ n + beN d (pos + 1) n

/-- `Cursor::read_exact` of `n` bytes at `pos`, as a little-endian number
(`read_u8/u16/u32/u64::<LittleEndian>`): `UnexpectedEof` when fewer than `n` bytes remain. -/
def readLE (d : Buf) (pos n : Nat) : Res Nat :=
  if pos + n ≤ d.size then .ok (leN d pos n) else .err .Eof

/-- `vec![0; n]` -/
def zeros (n : Nat) : Buf := Array.replicate n 0

end Buf

namespace Pixel

/-- texture_decoder.rs:5-8 -/
def CONVERT_5_TO_8 : List Nat := [
  0x00, 0x08, 0x10, 0x18, 0x20, 0x29, 0x31, 0x39, 0x41, 0x4A, 0x52, 0x5A, 0x62, 0x6A, 0x73, 0x7B,
  0x83, 0x8B, 0x94, 0x9C, 0xA4, 0xAC, 0xB4, 0xBD, 0xC5, 0xCD, 0xD5, 0xDE, 0xE6, 0xEE, 0xF6, 0xFF]

/-- texture_decoder.rs:10-14 -/
def TILE_ORDER : List Nat := [
  0, 1, 8, 9, 2, 3, 10, 11, 16, 17, 24, 25, 18, 19, 26, 27, 4, 5, 12, 13, 6, 7, 14, 15, 20, 21,
  28, 29, 22, 23, 30, 31, 32, 33, 40, 41, 34, 35, 42, 43, 48, 49, 56, 57, 50, 51, 58, 59, 36, 37,
  44, 45, 38, 39, 46, 47, 52, 53, 60, 61, 54, 55, 62, 63]

/-- An RGBA colour, channels as numbers below 256. -/
structure Rgba where
  r : Nat
  g : Nat
  b : Nat
  a : Nat
  deriving DecidableEq, Repr

def Rgba.chan (c : Rgba) : Nat → Nat
  | 0 => c.r | 1 => c.g | 2 => c.b | _ => c.a

/-- `CONVERT_5_TO_8[v as usize]` (the index is always masked with `0x1F`). -/
def conv5 (v : Nat) : Nat := CONVERT_5_TO_8.getD v 0
/-- `(v | (v << 4)) as u8` for a 4-bit value. -/
def exp4 (v : Nat) : Nat := (v ||| (v <<< 4)) % 256

/-- texture_decoder.rs:18-116 `decode_color(value: u32, format: u32)`. -/
def decodeColor (value format : Nat) : Rgba :=
  match format with
  | 0 => -- RGBA8 :22-26
    ⟨value / 2 ^ 24 % 256, value / 2 ^ 16 % 256, value / 2 ^ 8 % 256, value % 256⟩
  | 1 => -- RGB8 :29-33
    ⟨value / 2 ^ 16 % 256, value / 2 ^ 8 % 256, value % 256, 0xFF⟩
  | 2 => -- RGBA5551 :36-40
    ⟨conv5 (value / 2 ^ 11 % 32), conv5 (value / 2 ^ 6 % 32), conv5 (value / 2 ^ 1 % 32),
     if value % 2 = 1 then 0xFF else 0⟩
  | 3 => -- RGB565 :43-47
    ⟨conv5 (value / 2 ^ 11 % 32), (value / 2 ^ 5 % 64 * 4) % 256, conv5 (value % 32), 0xFF⟩
  | 4 => -- RGBA4 :50-58
    ⟨exp4 (value / 2 ^ 12 % 16), exp4 (value / 2 ^ 8 % 16), exp4 (value / 2 ^ 4 % 16), exp4 (value % 16)⟩
  | 5 => -- LA8 :61-66
    let red := value / 2 ^ 8 % 256
    ⟨red, red, red, value % 256⟩
  | 6 => -- HILO8 :69-74
    let red := value / 2 ^ 8 % 256
    ⟨red, red, red, 0xFF⟩
  | 7 => -- L8 :77-81
    ⟨value % 256, value % 256, value % 256, 0xFF⟩
  | 8 => -- A8 :84-88
    ⟨0xFF, 0xFF, 0xFF, value % 256⟩
  | 9 => -- LA4 :91-96
    let red := value / 2 ^ 4 % 256
    ⟨red, red, red, value % 16⟩
  | 10 => -- L4 :99-104
    let red := value * 0x11 % 256
    ⟨red, red, red, 0xFF⟩
  | 11 => -- A4 :107-111
    ⟨0xFF, 0xFF, 0xFF, value * 0x11 % 256⟩
  | _ => ⟨0, 0, 0, 0⟩

/-- texture_decoder.rs:135-148: the texel read for one pixel; returns the value and the new
cursor position.  Format 1 reads four bytes, masks to 24 bits and seeks back one byte. -/
def readTexel (data : Buf) (pos format : Nat) : Res (Nat × Nat) :=
  match format with
  | 0 => do let v ← data.readLE pos 4; pure (v, pos + 4)
  | 1 => do let v ← data.readLE pos 4; pure (v % 2 ^ 24, pos + 4 - 1)
  | 2 | 3 | 4 | 5 => do let v ← data.readLE pos 2; pure (v, pos + 2)
  | 6 | 7 | 8 | 9 => do let v ← data.readLE pos 1; pure (v, pos + 1)
  | _ => pure (0, pos)

/-- `bmp[i..i+4].copy_from_slice(&color)`: slice-index panic when out of range. -/
def write4 (bmp : Buf) (i : Nat) (c : Rgba) : Res Buf :=
  if i + 4 ≤ bmp.size then
    .ok ((((bmp.setIfInBounds i (UInt8.ofNat c.r)).setIfInBounds (i + 1) (UInt8.ofNat c.g)).setIfInBounds
      (i + 2) (UInt8.ofNat c.b)).setIfInBounds (i + 3) (UInt8.ofNat c.a))
  else .panic

/-- Largest vector the model allocates.  A request above `isize::MAX` panics (`capacity
overflow`); a request the allocator refuses aborts the process.  Both are outside every theorem's
domain; the model answers `panic` from 2^40 bytes on (never reached by a generated case). -/
def allocLimit : Nat := 2 ^ 40

/-- `vec![0; 4 * width * height]` with the multiplications in `usize` (texture_decoder.rs:124-125,
etc1.rs:53-54). -/
def allocBmp (p : Profile) (width height : Nat) : Res Buf := do
  let n ← mulN 64 p width height
  let m ← mulN 64 p 4 n
  if m < allocLimit then pure (Buf.zeros m) else .panic

/-- texture_decoder.rs:130-150, the body of the pixel loop; state = (cursor position, bmp). -/
def rgbaStep (data : Buf) (width format tile_y tile_x pixel : Nat) (st : Nat × Buf) : Res (Nat × Buf) :=
  let x := TILE_ORDER.getD pixel 0 % 8                                    -- :131
  let y := (TILE_ORDER.getD pixel 0 - x) / 8                              -- :132
  let output_index := (tile_x * 8 + x + ((tile_y * 8 + y) * width)) * 4   -- :133
  match readTexel data st.1 format with                                   -- :135-148
  | .ok (value, pos') =>
    match write4 st.2 output_index (decodeColor value format) with        -- :149
    | .ok bmp' => .ok (pos', bmp')
    | .err e => .err e
    | .panic => .panic
  | .err e => .err e
  | .panic => .panic

/-- texture_decoder.rs:118-154 `decode_rgba_pixel_data`. -/
def decodeRgba (p : Profile) (data : Buf) (width height format : Nat) : Res Buf := do
  let bmp ← allocBmp p width height
  let st ← forRange (height / 8) (fun tile_y st =>
    forRange (width / 8) (fun tile_x st =>
      forRange 64 (fun pixel st => rgbaStep data width format tile_y tile_x pixel st) st) st) (0, bmp)
  pure st.2

/-- texture_decoder.rs:166-175 `get_pixel_format_bpp` times two (0.5 bytes per pixel is 1). -/
def bppTimes2 (format : Nat) : Nat :=
  match format with
  | 0 => 8
  | 1 => 6
  | 2 | 3 | 4 | 5 => 4
  | 6 | 7 | 8 | 9 | 0xB | 0xD => 2
  | 0xA | 0xC => 1
  | _ => 0

/-- `(get_pixel_format_bpp(f) * width as f32 * height as f32) as usize` (ctpk.rs:117-119,
bch.rs:153): the exact value of the product.  Assumption M5: the `f32` product is exact, which
holds whenever `bpp * width * height < 2^24` or the product is a power of two times a 24-bit number
(all sizes of the property's domain); checked against the code for every size of the domain. -/
def payloadSize (format width height : Nat) : Nat := bppTimes2 format * width * height / 2

/-! ### pixel_encodings.rs -/

/-- pixel_encodings.rs:13-27 `decode_rgb5a3_pixel(value: u16)`; the products are `u16` and stay
below 2^16 (`0x8 * 0x3F = 504`), `as u8` is `% 256`. -/
def decodeRgb5a3 (value : Nat) : Rgba :=
  if value / 2 ^ 15 % 2 = 0 then
    ⟨0x11 * (value / 2 ^ 8 % 16) % 256, 0x11 * (value / 2 ^ 4 % 16) % 256, 0x11 * (value % 16) % 256,
     0x20 * (value / 2 ^ 12 % 8) % 256⟩
  else
    ⟨0x8 * (value / 2 ^ 10 % 256) % 256, 0x8 * (value / 2 ^ 5 % 32) % 256, 0x8 * (value % 32) % 256, 0xFF⟩

inductive ColorFormat | RGBA8 | RGB5A3 | CI8 | Unrecognized
  deriving DecidableEq, Repr

def ColorFormat.isIndexed : ColorFormat → Bool
  | .CI8 => true | _ => false
def ColorFormat.bytesPerPixel : ColorFormat → Nat
  | .RGBA8 => 4 | .RGB5A3 => 2 | .CI8 => 1 | .Unrecognized => 0

def pushRgba (out : Buf) (c : Rgba) : Buf :=
  (((out.push (UInt8.ofNat c.r)).push (UInt8.ofNat c.g)).push (UInt8.ofNat c.b)).push (UInt8.ofNat c.a)

/-- pixel_encodings.rs:45-56, loop `for i in (0..len).step_by(step)` as a count of steps. -/
def decodeLoop (f : ColorFormat) (data : Buf) : Nat → Nat → Buf → Buf
  | 0, _, out => out
  | n + 1, i, out =>
    match f with
    | .RGBA8 => decodeLoop f data n (i + 4)
        ((((out.push (data.getD i 0)).push (data.getD (i + 1) 0)).push (data.getD (i + 2) 0)).push (data.getD (i + 3) 0))
    | .RGB5A3 => decodeLoop f data n (i + 2) (pushRgba out (decodeRgb5a3 (data.beN i 2)))
    | _ => decodeLoop f data n (i + f.bytesPerPixel) out

/-- pixel_encodings.rs:31-58 `ColorFormat::decode`. -/
def ColorFormat.decode (f : ColorFormat) (data : Buf) : Res Buf :=
  if f = .Unrecognized then .err .Unsupported          -- :32-34
  else if f.isIndexed then .err .Other                 -- NoPalette :35-37
  else
    let step := f.bytesPerPixel
    if data.size % step ≠ 0 then .err .Other           -- UnalignedData :40-42
    else .ok (decodeLoop f data (data.size / step) 0 #[])

/-- pixel_encodings.rs:75-85. -/
def indexedLoop (data palette : Buf) : Nat → Nat → Buf → Res Buf
  | 0, _, out => .ok out
  | n + 1, i, out =>
    let index := data.byteAt i                                         -- :77
    if index ≥ palette.size / 4 then .err .OutOfBounds                 -- :80-82
    else
      let ri := index * 4
      indexedLoop data palette n (i + 1)
        ((((out.push (palette.getD ri 0)).push (palette.getD (ri + 1) 0)).push (palette.getD (ri + 2) 0)).push
          (palette.getD (ri + 3) 0))

/-- pixel_encodings.rs:60-87 `ColorFormat::decode_indexed`. -/
def ColorFormat.decodeIndexed (f : ColorFormat) (data palette : Buf) : Res Buf :=
  if f = .Unrecognized then .err .Unsupported          -- :61-63
  else if !f.isIndexed then .err .Other                -- NotIndexed :64-66
  else
    -- only CI8 is indexed: step = 1, `len % 1 = 0`
    if palette.size % 4 ≠ 0 then .err .Other           -- UnalignedData :69-71
    else indexedLoop data palette data.size 0 #[]

/-! ### texture_utils.rs -/

/-- texture_utils.rs:41-52 `align`. -/
def align (value increment : Nat) : Nat :=
  if increment ≤ 1 then value
  else
    let tmp := value % increment
    if tmp > 0 then value + (increment - tmp) else value

/-- texture_utils.rs:24-35: body of the inner loop of `block_to_sequential`. -/
def b2sStep (data : Buf) (texture_width block_width block_height num_blocks_in_row block_size
    block_number block_index : Nat) (sequential : Buf) : Buf :=
  let block_row := block_number / num_blocks_in_row
  let block_column := block_number % num_blocks_in_row
  let row_in_block := block_index / block_width
  let column_in_block := block_index % block_width
  let index_in_input := block_number * block_size + block_index
  let index_in_output := block_row * texture_width * block_height + row_in_block * texture_width
    + block_column * block_width + column_in_block
  if index_in_input < data.size ∧ index_in_output < sequential.size then
    sequential.setIfInBounds index_in_output (data.getD index_in_input 0)
  else sequential

/-- texture_utils.rs:7-39 `block_to_sequential` (block dimensions are non-zero constants of
`tpl.rs`; `n / 0 = 0` in both Lean and — for `num_blocks_in_row = 0` — no iteration happens because
then `num_blocks_in_texture = 0`). -/
def blockToSequential (data : Buf) (texture_width texture_height block_width block_height : Nat) : Res Buf :=
  let block_size := block_width * block_height
  let num_blocks_in_row := texture_width / block_width
  let num_blocks_in_texture := (texture_width * texture_height) / block_size
  forRange num_blocks_in_texture (fun block_number s =>
    forRange block_size (fun block_index s =>
      .ok (b2sStep data texture_width block_width block_height num_blocks_in_row block_size
        block_number block_index s)) s) (Buf.zeros (texture_width * texture_height))

/-- texture_utils.rs:54-61 `crop`; the slice `input[base..base+width]` panics when out of range. -/
def crop (input : Buf) (original_width width height : Nat) : Res Buf :=
  forRange height (fun r out =>
    let base_index := r * original_width
    if base_index + width ≤ input.size then .ok (out ++ input.extract base_index (base_index + width))
    else .panic) #[]

/-! ### tpl.rs size and block tables -/

/-- `TplImageFormat` by its `repr` value; `none` = `NoVariantMatch`. -/
def tplImageFormatOk (v : Nat) : Bool :=
  v = 0 ∨ v = 1 ∨ v = 2 ∨ v = 3 ∨ v = 4 ∨ v = 5 ∨ v = 6 ∨ v = 8 ∨ v = 9 ∨ v = 10 ∨ v = 14

/-- tpl.rs:150-164 `block_dimensions`. -/
def tplBlockDims (fmt : Nat) : Nat × Nat :=
  match fmt with
  | 0 => (8, 8) | 1 => (8, 4) | 2 => (8, 4) | 3 => (4, 4) | 4 => (4, 4) | 5 => (4, 4) | 6 => (4, 4)
  | 8 => (8, 8) | 9 => (8, 4) | 10 => (4, 4) | _ => (8, 8)

/-- tpl.rs:129-148 `byte_size_of_image`. -/
def tplImageBytes (fmt height width : Nat) : Nat :=
  let (bw, bh) := tplBlockDims fmt
  let base := align height bh * align width bw
  match fmt with
  | 0 => base / 2 | 1 => base | 2 => base | 3 => base * 2 | 4 => base * 2 | 5 => base * 2
  | 6 => base * 4 | 8 => base / 2 | 9 => base | 10 => base * 2 | _ => base

/-- tpl.rs:187-195 `From<TplImageFormat> for ColorFormat`. -/
def tplImageColorFormat (fmt : Nat) : ColorFormat :=
  match fmt with
  | 5 => .RGB5A3 | 6 => .RGBA8 | 9 => .CI8 | _ => .Unrecognized

/-- tpl.rs:178-185 `From<TplPaletteFormat> for ColorFormat`. -/
def tplPaletteColorFormat (fmt : Nat) : ColorFormat :=
  match fmt with
  | 2 => .RGB5A3 | _ => .Unrecognized

/-- tpl.rs:87-121: one image of `extract_textures`, from the parsed header fields. -/
def tplDecodeImage (paletteFormat : Nat) (paletteData : Buf) (imageFormat height width : Nat)
    (imageData : Buf) : Res Buf := do
  let rgba_palette ← (tplPaletteColorFormat paletteFormat).decode paletteData          -- :90-91
  let (block_width, block_height) := tplBlockDims imageFormat                          -- :96
  let aligned_w := align width block_width                                             -- :99
  let aligned_h := align height block_height                                           -- :100
  let sequential ← blockToSequential imageData aligned_w aligned_h block_width block_height  -- :101-107
  let cropped ← crop sequential aligned_w width height                                 -- :109-114
  (tplImageColorFormat imageFormat).decodeIndexed cropped rgba_palette                 -- :115

end Pixel
end Mila
