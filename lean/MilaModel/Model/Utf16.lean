/-
UTF-8 ⇄ scalar values ⇄ UTF-16LE, as used by `src/encoded_strings.rs`:

* `to_utf_16` (`:103-111`): `str::encode_utf16()` then `u16::to_le_bytes()` — little-endian
  **whatever the archive's endianness**.
* `read_utf_16_impl` (`:35-61`): byte pairs up to the pair `00 00`, then
  `UTF_16LE.decode_without_bom_handling` (no BOM sniffing — fix D15); an unpaired surrogate makes
  `had_errors` true ⇒ `DecodingFailed`.

Rust `String`s are valid UTF-8, so `Str` (= UTF-8 bytes) values that reach the model always decode;
the `none` branch of `utf8Dec` is unreachable from the code and is mapped to an error.
Everything is over `Nat` (code points, code units, byte values) so that the arithmetic is `omega`-friendly.
-/
import MilaModel.Basic
import MilaModel.Model.Codec

namespace Mila.Utf

/-- Unicode scalar value: a code point that is not a surrogate. -/
def IsScalar (c : Nat) : Prop := c < 0xD800 ∨ (0xE000 ≤ c ∧ c < 0x110000)

instance (c : Nat) : Decidable (IsScalar c) := by unfold IsScalar; infer_instance

/-! ### UTF-8 -/

/-- `char::encode_utf8`. -/
def utf8Enc1 (c : Nat) : Bytes :=
  if c < 0x80 then [UInt8.ofNat c]
  else if c < 0x800 then [UInt8.ofNat (0xC0 + c / 64), UInt8.ofNat (0x80 + c % 64)]
  else if c < 0x10000 then
    [UInt8.ofNat (0xE0 + c / 4096), UInt8.ofNat (0x80 + c / 64 % 64), UInt8.ofNat (0x80 + c % 64)]
  else
    [UInt8.ofNat (0xF0 + c / 262144), UInt8.ofNat (0x80 + c / 4096 % 64),
     UInt8.ofNat (0x80 + c / 64 % 64), UInt8.ofNat (0x80 + c % 64)]

/-- A `String` (UTF-8 bytes) from its scalar values. -/
def utf8Enc (cs : List Nat) : Bytes := cs.flatMap utf8Enc1

def isCont (b : Nat) : Bool := 0x80 ≤ b && b < 0xC0

/-- `str::chars()` on the UTF-8 bytes: sequences of 1–4 bytes.  `none` on a malformed sequence
(cannot happen for a Rust `String`). -/
def utf8Dec : Bytes → Option (List Nat)
  | [] => some []
  | b0 :: rest =>
    if b0.toNat < 0x80 then (utf8Dec rest).map (b0.toNat :: ·)
    else if b0.toNat < 0xC0 then none
    else if b0.toNat < 0xE0 then
      match rest with
      | b1 :: rest' =>
        if isCont b1.toNat then
          (utf8Dec rest').map ((b0.toNat % 32 * 64 + b1.toNat % 64) :: ·)
        else none
      | _ => none
    else if b0.toNat < 0xF0 then
      match rest with
      | b1 :: b2 :: rest' =>
        if isCont b1.toNat && isCont b2.toNat then
          (utf8Dec rest').map ((b0.toNat % 16 * 4096 + b1.toNat % 64 * 64 + b2.toNat % 64) :: ·)
        else none
      | _ => none
    else if b0.toNat < 0xF8 then
      match rest with
      | b1 :: b2 :: b3 :: rest' =>
        if isCont b1.toNat && isCont b2.toNat && isCont b3.toNat then
          (utf8Dec rest').map
            ((b0.toNat % 8 * 262144 + b1.toNat % 64 * 4096 + b2.toNat % 64 * 64 + b3.toNat % 64) :: ·)
        else none
      | _ => none
    else none

/-! ### UTF-16 -/

/-- `char::encode_utf16`: one unit, or a surrogate pair for astral scalars. -/
def utf16Units1 (c : Nat) : List Nat :=
  if c < 0x10000 then [c]
  else [0xD800 + (c - 0x10000) / 1024, 0xDC00 + (c - 0x10000) % 1024]

def utf16Units (cs : List Nat) : List Nat := cs.flatMap utf16Units1

/-- `u16::to_le_bytes`. -/
def unitLe (u : Nat) : Bytes := [UInt8.ofNat (u % 256), UInt8.ofNat (u / 256)]

def unitsLe (us : List Nat) : Bytes := us.flatMap unitLe

/-- `to_utf_16` on scalar values. -/
def utf16Bytes (cs : List Nat) : Bytes := unitsLe (utf16Units cs)

/-- `to_utf_16` (`encoded_strings.rs:103-111`); never fails on a valid `&str`. -/
def toUtf16 (s : Str) : Res Bytes :=
  match utf8Dec s with
  | some cs => .ok (utf16Bytes cs)
  | none => .err .Invalid      -- unreachable: `&str` is valid UTF-8

/-- The loop of `read_utf_16_impl` (`:40-53`): the byte pairs before the first `00 00` pair;
`none` when the reader runs out first (`UnterminatedString`). -/
def utf16Raw : Bytes → Option Bytes
  | b1 :: b2 :: rest =>
    if b1 = 0 ∧ b2 = 0 then some [] else (utf16Raw rest).map (fun r => b1 :: b2 :: r)
  | _ => none

/-- Little-endian code units of an even-length buffer. -/
def unitsOfLe : Bytes → List Nat
  | b0 :: b1 :: rest => (b0.toNat + 256 * b1.toNat) :: unitsOfLe rest
  | _ => []

/-- UTF-16 decoding; `none` = `had_errors` (an unpaired surrogate). -/
def utf16Dec : List Nat → Option (List Nat)
  | [] => some []
  | u :: rest =>
    if u < 0xD800 ∨ 0xE000 ≤ u then (utf16Dec rest).map (u :: ·)
    else if u < 0xDC00 then
      match rest with
      | l :: rest' =>
        if 0xDC00 ≤ l ∧ l < 0xE000 then
          (utf16Dec rest').map ((0x10000 + (u - 0xD800) * 1024 + (l - 0xDC00)) :: ·)
        else none
      | [] => none
    else none

/-- `UTF_16LE.decode_without_bom_handling(buffer)` followed by the `errors` test (`:55-60`). -/
def decodeUtf16 (raw : Bytes) : Res Str :=
  match utf16Dec (unitsOfLe raw) with
  | some cs => .ok (utf8Enc cs)
  | none => .err .Decoding

end Mila.Utf
