/-
Model of `src/layered_filesystem.rs` (C12, C13, filesystem clause of C14).

The operating system is *modelled, not verified* (DESIGN §6 C12 "!"): one layer directory is a
finite map from normalised relative paths (lists of components) to `file bytes | dir`; the layer
root is the empty list and always a directory.  `std::fs`, `std::path`, `normpath` and `glob` are
modelled as total functions on that map, with the POSIX error cases fixed by experiment against
the real code (corpus `corpus/C12/posix-*.case`):

* a path is resolved component-wise; empty pieces and `.` pieces are skipped; a trailing `/` (or
  `/.`) demands a directory (`stat("file/")` = ENOTDIR);
* `create_dir_all` fails iff some prefix of the path is a regular file, and then creates nothing;
  otherwise it creates every missing prefix;
* `fs::write` = `open(O_WRONLY|O_CREAT|O_TRUNC)`: EISDIR on a directory or on the layer root,
  error on a trailing slash; `LayeredFilesystem::write` has by then already created the parent
  directories (a rejected write may leave directories behind);
* `glob` yields every entry below the canonical directory whose relative path matches the pattern
  (hidden files included, `**` = any directory chain); its order is irrelevant because the results
  are collected into a `HashSet` and sorted.

Outside the model (and outside the properties' domain): absolute paths, `..` components, symlinks,
permissions, non-UTF-8 names, layer roots that occur inside relative paths (`replace`, DESIGN §7 N1).

Compression and the typed codecs are *abstract parameters* (`Env`): the LZ round trip is properties
C08/C09/C11, the archive codecs C01/C06/C15/C16/C20.
-/
import MilaModel.Basic
import MilaModel.Model.Localize

namespace Mila.LayeredFs
open Mila.Localize (slash dot)

/-! ### One layer: a directory tree as a finite map -/

inductive Node
  | file (b : Bytes)
  | dir
  deriving DecidableEq, Repr

/-- A normalised relative path: its components. -/
abbrev Comps := List Bytes

/-- A layer directory: association list path ↦ node; the first entry for a key counts. -/
abbrev Layer := List (Comps × Node)

namespace Layer

/-- Lookup; the layer root `[]` always exists and is a directory. -/
def get (l : Layer) (c : Comps) : Option Node :=
  if c = [] then some .dir else (l.find? (fun e => decide (e.1 = c))).map (·.2)

/-- Create or replace an entry. -/
def set : Layer → Comps → Node → Layer
  | [], c, n => [(c, n)]
  | e :: rest, c, n => if e.1 = c then (c, n) :: rest else e :: set rest c n

end Layer

/-- `Path::new(root).join(path)` as seen by the kernel's path walk: the components that name
something, and whether the path syntactically demands a directory (empty path, trailing `/`, `/.`). -/
structure PathInfo where
  comps : Comps
  mustDir : Bool
  deriving DecidableEq, Repr

def isSkipped (c : Bytes) : Bool := c.isEmpty || c == [dot]

def parsePath (p : Bytes) : PathInfo :=
  let pieces := splitOn' slash p
  { comps := pieces.filter (fun c => !isSkipped c)
    mustDir := match pieces.getLast? with
      | some c => isSkipped c
      | none => true }

/-- The non-empty prefixes of a path, shortest first. -/
def prefixes (c : Comps) : List Comps := (List.range c.length).map (fun i => c.take (i + 1))

namespace Layer

/-- `stat(root/path)`: `none` = ENOENT/ENOTDIR. -/
def stat (l : Layer) (path : Bytes) : Option Node :=
  let i := parsePath path
  match l.get i.comps with
  | some .dir => some .dir
  | some (.file b) => if i.mustDir then none else some (.file b)
  | none => none

/-- `layered_filesystem.rs:119-123` `Path::exists`. -/
def exists_ (l : Layer) (path : Bytes) : Bool := (l.stat path).isSome
/-- `:107-111` `Path::is_file`. -/
def fileExists (l : Layer) (path : Bytes) : Bool :=
  match l.stat path with
  | some (.file _) => true
  | _ => false
/-- `:113-117` `Path::is_dir`. -/
def directoryExists (l : Layer) (path : Bytes) : Bool := l.stat path = some .dir

/-- `:26-32` `std::fs::read`. -/
def read (l : Layer) (path : Bytes) : Res Bytes :=
  match l.stat path with
  | some (.file b) => .ok b
  | _ => .err .Io

def isFileNode : Option Node → Bool
  | some (.file _) => true
  | _ => false

/-- `mkdir(root/q)` when the parent exists: EEXIST (ignored by `create_dir_all`) if present. -/
def mkStep (l : Layer) (q : Comps) : Layer := if (l.get q).isNone then l.set q .dir else l

/-- `std::fs::create_dir_all(root/c)`: mkdir from the leaf upwards; any prefix that is a regular
file gives EEXIST/ENOTDIR before anything is created. -/
def mkdirAll (l : Layer) (c : Comps) : Layer × Res Unit :=
  if (prefixes c).any (fun q => isFileNode (l.get q)) then (l, .err .Io)
  else ((prefixes c).foldl mkStep l, .ok ())

/-- `:34-45` `FileSystemLayer::write`. -/
def write (l : Layer) (path : Bytes) (contents : Bytes) : Layer × Res Unit :=
  let i := parsePath path
  -- :38-40 `full_path.parent()` drops the last component (of `root` itself when there is none:
  -- that directory exists, `create_dir_all` is then a no-op)
  match l.mkdirAll i.comps.dropLast with
  | (l1, .ok ()) =>
    -- :41 `std::fs::write`
    if i.comps.isEmpty || i.mustDir then (l1, .err .Io)          -- EISDIR / ENOTDIR / ENOENT
    else match l1.get i.comps with
      | some .dir => (l1, .err .Io)                              -- EISDIR
      | _ => (l1.set i.comps (.file contents), .ok ())
  | (l1, _) => (l1, .err .Io)

/-- `:47-55` `FileSystemLayer::create_dir`. -/
def createDir (l : Layer) (path : Bytes) : Layer × Res Unit :=
  l.mkdirAll (parsePath path).comps

end Layer

/-! ### `glob` on the pattern family -/

inductive Tok
  | star
  | lit (b : UInt8)
  deriving DecidableEq, Repr

/-- `*` against the rest of a name: try every split point (`matches_from`, `AnySequence` arm). -/
def starGo (rest : Bytes → Bool) : Bytes → Bool
  | [] => rest []
  | x :: xs => rest (x :: xs) || starGo rest xs

/-- `Pattern::matches_with` for one path component (`*` = any possibly empty sequence). -/
def wild : List Tok → Bytes → Bool
  | [], n => n.isEmpty
  | .lit c :: ps, n =>
    match n with
    | [] => false
    | x :: xs => c == x && wild ps xs
  | .star :: ps, n => starGo (wild ps) n

/-- A compiled pattern: a chain of component patterns, or `**/c`. -/
inductive Glob
  | chain (cs : List (List Tok))
  | recursive (c : List Tok)
  deriving DecidableEq, Repr

def star : UInt8 := 0x2A

def tokOf (b : UInt8) : Tok := if b = star then .star else .lit b

/-- A component the model understands: non-empty, no `?`, `[`, `]`, no `**`. -/
def plainComponent : Bytes → Bool
  | [] => false
  | [b] => !(b == 0x3F || b == 0x5B || b == 0x5D)
  | a :: b :: rest =>
    !(a == 0x3F || a == 0x5B || a == 0x5D) && !(a == star && b == star) && plainComponent (b :: rest)

/-- `glob::glob` pattern compilation restricted to the family `{**/*, *, *.ext, **/*.ext, lit/*}`
(and chains of such components); `none` = outside the modelled family. -/
def Glob.parse (pat : Bytes) : Option Glob :=
  match splitOn' slash pat with
  | [a, c] =>
    if a = [star, star] then (if plainComponent c then some (.recursive (c.map tokOf)) else none)
    else if plainComponent a && plainComponent c then some (.chain [a.map tokOf, c.map tokOf])
    else none
  | cs => if cs.all plainComponent then some (.chain (cs.map (·.map tokOf))) else none

def matchChain : List (List Tok) → Comps → Bool
  | [], [] => true
  | p :: ps, n :: ns => wild p n && matchChain ps ns
  | _, _ => false

/-- Does the path `rel` (relative to the listed directory) match? -/
def Glob.matches : Glob → Comps → Bool
  | .chain cs, rel => matchChain cs rel
  | .recursive c, rel =>
    match rel.getLast? with
    | some n => wild c n
    | none => false

/-- `display()` of a path below the layer root, root prefix stripped (`:74`). -/
def render (c : Comps) : Bytes := joinWith slash c

namespace Layer

/-- What `glob(canonical/ ++ pattern)` finds below directory `d`. -/
def globUnder (l : Layer) (d : Comps) (g : Glob) : List (Comps × Node) :=
  l.filter (fun e => d.isPrefixOf e.1 && decide (d.length < e.1.length) && g.matches (e.1.drop d.length))

def defaultPattern : Bytes := [star, star, slash, star]

/-- `:57-81` `FileSystemLayer::list`. -/
def list (l : Layer) (path : Bytes) (pat : Option Bytes) : Res (List Bytes) :=
  match l.stat path with
  | none => .ok []                                   -- :65 `full_path.exists()`
  | some n =>
    -- :66-67 `normalize()` = canonicalize: the components of the path
    let d := (parsePath path).comps
    match Glob.parse (pat.getD defaultPattern) with   -- :70-72
    | none => .err .Invalid
    | some g =>
      match n with
      | .file _ => .ok []                            -- nothing is below a regular file
      | .dir => .ok ((l.globUnder d g).map (fun e => render e.1))

/-- `:83-105` `FileSystemLayer::subdirectories`: pattern `*`, keep directories. -/
def subdirectories (l : Layer) (path : Bytes) : Res (List Bytes) :=
  match l.stat path with
  | none => .ok []
  | some (.file _) => .ok []
  | some .dir =>
    let d := (parsePath path).comps
    .ok (((l.globUnder d (.chain [[.star]])).filter (fun e => decide (e.2 = .dir))).map (fun e => render e.1))

end Layer

/-! ### Configuration per game (`:173-229`) -/

inductive GameId | FE9 | FE10 | FE11 | FE12 | FE13 | FE14 | FE15
  deriving DecidableEq, Repr
inductive LzKind | lz10 | lz13
  deriving DecidableEq, Repr
inductive TextFormat | shiftJis | unicode
  deriving DecidableEq, Repr

structure Config where
  lz : LzKind
  localizer : Localize.Game
  endian : Endian
  text : TextFormat
  deriving DecidableEq, Repr

/-- `:177-210`; `none` = `UnsupportedGame`. -/
def config : GameId → Option Config
  | .FE9 => some ⟨.lz10, .FE9, .big, .shiftJis⟩
  | .FE10 => some ⟨.lz10, .FE10, .big, .shiftJis⟩
  | .FE11 => none
  | .FE12 => none
  | .FE13 => some ⟨.lz13, .FE13, .little, .unicode⟩
  | .FE14 => some ⟨.lz13, .FE14, .little, .unicode⟩
  | .FE15 => some ⟨.lz13, .FE15, .little, .unicode⟩

/-- `lz10.rs:12-14`, `lz13.rs:169-171` `is_compressed_filename` (`str::ends_with`). -/
def isCompressed : LzKind → Bytes → Bool
  | .lz10, f => (bs ['.', 'c', 'm', 's']).isSuffixOf f || (bs ['.', 'c', 'm', 'p']).isSuffixOf f
  | .lz13, f => (bs ['.', 'l', 'z']).isSuffixOf f

/-! ### Abstract codecs -/

structure Lz where
  compress : Bytes → Res Bytes
  decompress : Bytes → Res Bytes

/-- Everything `layered_filesystem.rs` calls outside itself and `localization.rs`. -/
structure Env where
  lz10 : Lz
  lz13 : Lz
  Bin : Type
  Txt : Type
  Pack : Type
  Arc : Type
  Tex : Type
  binParse : Endian → Bytes → Res Bin          -- BinArchive::from_bytes
  binSer : Bin → Res Bytes                     -- BinArchive::serialize
  txtParse : TextFormat → Endian → Bytes → Res Txt
  txtSer : Txt → Res Bytes
  packParse : Bytes → Res Pack                 -- fe9_arc::parse
  arcParse : Bytes → Res Arc                   -- arc::from_bytes
  tplParse : Bytes → Res Tex
  bchParse : Bytes → Res Tex
  ctpkParse : Bytes → Res Tex
  cgfxParse : Bytes → Res Tex

def Env.lz (E : Env) : LzKind → Lz
  | .lz10 => E.lz10
  | .lz13 => E.lz13

/-- Coarse error class of a `?`-converted error. -/
def reclass {α : Type} (e : Err) : Res α → Res α
  | .ok a => .ok a
  | .err _ => .err e
  | .panic => .panic

/-! ### `LayeredFilesystem` -/

structure Fs where
  layers : List Layer         -- lowest priority first; the last one is the write layer
  game : GameId
  cfg : Config
  lang : Localize.Language

/-- `:173-229`. Layer roots are opaque (their `normalize()` is outside the model). -/
def new (layers : List Layer) (lang : Localize.Language) (game : GameId) : Res Fs :=
  if layers.isEmpty then .err .Other                -- :174 NoLayers
  else match config game with
    | none => .err .Unsupported
    | some c => .ok ⟨layers, game, c, lang⟩

namespace Fs

/-- The `if localized { localize(path)? } else { path }` prologue of every operation. -/
def actualPath (fs : Fs) (path : Bytes) (localized : Bool) : Res Bytes :=
  if localized then Localize.localize fs.cfg.localizer fs.lang path else .ok path

/-- `:268-284`: the search loop of `read`, on the already localised path; `z` = suffix test result. -/
def readAt (E : Env) (fs : Fs) (actual : Bytes) (z : Bool) : Res Bytes :=
  match fs.layers.reverse.find? (fun l => l.fileExists actual) with
  | none => .err .NotFound
  | some l =>
    match l.read actual with
    | .ok bytes => if z then reclass .Decoding ((E.lz fs.cfg.lz).decompress bytes) else .ok bytes
    | .err _ => .err .Io
    | .panic => .panic

/-- `:261-285`. NB `:274`: the suffix test is on the *unlocalised* `path`. -/
def read (E : Env) (fs : Fs) (path : Bytes) (localized : Bool) : Res Bytes :=
  match fs.actualPath path localized with
  | .ok actual => fs.readAt E actual (isCompressed fs.cfg.lz path)
  | .err e => .err e
  | .panic => .panic

def anyLayer (fs : Fs) (f : Layer → Bool) : Bool := (fs.layers.reverse.find? f).isSome

def query (fs : Fs) (f : Layer → Bytes → Bool) (path : Bytes) (localized : Bool) : Res Bool :=
  match fs.actualPath path localized with
  | .ok actual => .ok (fs.anyLayer (fun l => f l actual))
  | .err e => .err e
  | .panic => .panic

/-- `:287-299`. -/
def exists_ (fs : Fs) (path : Bytes) (localized : Bool) : Res Bool := fs.query Layer.exists_ path localized
/-- `:301-313`. -/
def fileExists (fs : Fs) (path : Bytes) (localized : Bool) : Res Bool := fs.query Layer.fileExists path localized
/-- `:315-327`. -/
def directoryExists (fs : Fs) (path : Bytes) (localized : Bool) : Res Bool :=
  fs.query Layer.directoryExists path localized

/-- Index (0 = lowest) of the highest layer satisfying `f`. -/
def topIndex (ls : List Layer) (f : Layer → Bool) : Option Nat :=
  match ls.reverse.findIdx? f with
  | some i => some (ls.length - 1 - i)
  | none => none

/-- `:338-350`: the layer that answers and the path joined to its root (`root/actual`). -/
def resolve (fs : Fs) (path : Bytes) (localized : Bool) : Option (Nat × Bytes) :=
  match fs.actualPath path localized with
  | .ok actual => (topIndex fs.layers (fun l => l.exists_ actual)).map (fun i => (i, actual))
  | _ => none

def setTop (fs : Fs) (top : Layer) : Fs := { fs with layers := fs.layers.dropLast ++ [top] }

/-- `:421-427`, on the already localised path and the already encoded contents. -/
def writeAt (fs : Fs) (actual contents : Bytes) : Fs × Res Unit :=
  match fs.layers.getLast? with
  | none => (fs, .err .Other)                          -- NoWriteableLayers
  | some top =>
    match top.write actual contents with
    | (top', .ok ()) => (fs.setTop top', .ok ())
    | (top', _) => (fs.setTop top', .err .Io)

/-- `:408-428`. NB `:415`: the suffix test is on the *unlocalised* `path`. -/
def write (E : Env) (fs : Fs) (path bytes : Bytes) (localized : Bool) : Fs × Res Unit :=
  match fs.actualPath path localized with
  | .err e => (fs, .err e)
  | .panic => (fs, .panic)
  | .ok actual =>
    match (if isCompressed fs.cfg.lz path then reclass .Decoding ((E.lz fs.cfg.lz).compress bytes) else .ok bytes) with
    | .err e => (fs, .err e)
    | .panic => (fs, .panic)
    | .ok contents => fs.writeAt actual contents

/-- `:329-336`. -/
def createDir (fs : Fs) (path : Bytes) (localized : Bool) : Fs × Res Unit :=
  match fs.actualPath path localized with
  | .err e => (fs, .err e)
  | .panic => (fs, .panic)
  | .ok actual =>
    match fs.layers.getLast? with
    | none => (fs, .panic)                              -- `layers[len - 1]` (unreachable: `new` rejects [])
    | some top =>
      match top.createDir actual with
      | (top', .ok ()) => (fs.setTop top', .ok ())
      | (top', _) => (fs.setTop top', .err .Io)

/-! #### listings (`:231-259`) -/

/-- Byte-wise lexicographic `≤` (`Ord for String`). -/
def leB : Bytes → Bytes → Bool
  | [], _ => true
  | _ :: _, [] => false
  | a :: as, b :: bs => if a < b then true else if b < a then false else leB as bs

/-- `HashSet::extend` + `into_iter`: one representative per value (in some order; sorted next). -/
def dedup : List Bytes → List Bytes
  | [] => []
  | x :: xs => if x ∈ dedup xs then dedup xs else x :: dedup xs

/-- The `for layer in &self.layers { result.extend(f(layer)?) }` loop. -/
def collect (f : Layer → Res (List Bytes)) : List Layer → Res (List Bytes)
  | [] => .ok []
  | l :: rest =>
    match f l with
    | .ok xs =>
      match collect f rest with
      | .ok ys => .ok (xs ++ ys)
      | .err e => .err e
      | .panic => .panic
    | .err e => .err e
    | .panic => .panic

/-- `Vec::sort()` on `String`s: any sorting algorithm gives the same result (the order is total and
the elements distinct); insertion sort is used because it reduces in the kernel. -/
def insertB (x : Bytes) : List Bytes → List Bytes
  | [] => [x]
  | y :: ys => if leB x y then x :: y :: ys else y :: insertB x ys

def sortB : List Bytes → List Bytes
  | [] => []
  | x :: xs => insertB x (sortB xs)

def sortSet (xs : List Bytes) : List Bytes := sortB (dedup xs)

/-- `:231-244`. -/
def list (fs : Fs) (path : Bytes) (pat : Option Bytes) (localized : Bool) : Res (List Bytes) :=
  match fs.actualPath path localized with
  | .err e => .err e
  | .panic => .panic
  | .ok actual =>
    match collect (fun l => l.list actual pat) fs.layers with
    | .ok all => .ok (sortSet all)
    | .err e => .err e
    | .panic => .panic

/-- `:246-259`. -/
def subdirectories (fs : Fs) (path : Bytes) (localized : Bool) : Res (List Bytes) :=
  match fs.actualPath path localized with
  | .err e => .err e
  | .panic => .panic
  | .ok actual =>
    match collect (fun l => l.subdirectories actual) fs.layers with
    | .ok all => .ok (sortSet all)
    | .err e => .err e
    | .panic => .panic

/-! #### typed helpers (`:352-443`): the byte-level call composed with the configured codec -/

def readThen {α : Type} (E : Env) (fs : Fs) (path : Bytes) (localized : Bool) (parse : Bytes → Res α) : Res α :=
  match fs.read E path localized with
  | .ok bytes => reclass .Invalid (parse bytes)
  | .err e => .err e
  | .panic => .panic

def readFe9Arc (E : Env) (fs : Fs) (p : Bytes) (loc : Bool) : Res E.Pack := readThen E fs p loc E.packParse
def readArc (E : Env) (fs : Fs) (p : Bytes) (loc : Bool) : Res E.Arc := readThen E fs p loc E.arcParse
def readArchive (E : Env) (fs : Fs) (p : Bytes) (loc : Bool) : Res E.Bin :=
  readThen E fs p loc (E.binParse fs.cfg.endian)
def readTextArchive (E : Env) (fs : Fs) (p : Bytes) (loc : Bool) : Res E.Txt :=
  readThen E fs p loc (E.txtParse fs.cfg.text fs.cfg.endian)
def readTplTextures (E : Env) (fs : Fs) (p : Bytes) (loc : Bool) : Res E.Tex := readThen E fs p loc E.tplParse
def readBchTextures (E : Env) (fs : Fs) (p : Bytes) (loc : Bool) : Res E.Tex := readThen E fs p loc E.bchParse
def readCtpkTextures (E : Env) (fs : Fs) (p : Bytes) (loc : Bool) : Res E.Tex := readThen E fs p loc E.ctpkParse
def readCgfxTextures (E : Env) (fs : Fs) (p : Bytes) (loc : Bool) : Res E.Tex := readThen E fs p loc E.cgfxParse

def serThenWrite (E : Env) (fs : Fs) (path : Bytes) (ser : Res Bytes) (localized : Bool) : Fs × Res Unit :=
  match reclass .Invalid ser with
  | .ok bytes => fs.write E path bytes localized
  | .err e => (fs, .err e)
  | .panic => (fs, .panic)

/-- `:430-433`. -/
def writeArchive (E : Env) (fs : Fs) (p : Bytes) (a : E.Bin) (loc : Bool) : Fs × Res Unit :=
  serThenWrite E fs p (E.binSer a) loc
/-- `:435-443`. -/
def writeTextArchive (E : Env) (fs : Fs) (p : Bytes) (t : E.Txt) (loc : Bool) : Fs × Res Unit :=
  serThenWrite E fs p (E.txtSer t) loc

end Fs

end Mila.LayeredFs
