/-
Model of `src/asset_binary.rs` (`AssetSpec::from_stream`, `compute_flags`, `append`,
`AssetBinary::from_archive`, `serialize`) on top of the shared bin-archive model.

The 51 optional fields of `AssetSpec` are handled through one table: field index `i ∈ 1..=51` is
flag bit `i` (byte `i / 8`, bit `i % 8`; bit 0 of byte 0 is the "extended record" marker).
  1..=33   `Option<String>`                       (`read_flag_str` / `write_flag_str`)
  34,35,36 `[u8; 4]` colour + `use_*`             (`read_color` / `write_color`: `swap(0, 2)`)
  37,38,39 `f32` + `use_*`                        (`read_f32` / `write_f32`)
  40..=43  `u32` + `use_*`   (unk3..unk6)
  44       `[u8; 4]` `bitflags` + `use_bitflags`  (colour routines)
  45..=51  `u32` + `use_*`   (unk7..unk13)
A typed value is kept as the four bytes of its little-endian in-memory form (`u32::to_le_bytes`,
`f32::to_bits().to_le_bytes()` — M5 — or the colour array itself); flag bytes are `Nat`s `< 256`.
The harness maps the 51 named struct fields to these indices with its own table.
-/
import MilaModel.Model.BinStreams

namespace Mila.Asset
open Mila BinArchive

inductive Kind
  | str | color | f32 | u32
  deriving DecidableEq, Repr

/-- The field table (asset_binary.rs:152-261 / 269-437 / 460-551). -/
def kindOf (i : Nat) : Kind :=
  if i ≤ 33 then .str
  else if i = 34 ∨ i = 35 ∨ i = 36 ∨ i = 44 then .color
  else if i = 37 ∨ i = 38 ∨ i = 39 then .f32
  else .u32

/-- `pub struct AssetSpec` (asset_binary.rs:7-84): `strs[i-1]` is string field `i` (1..=33),
`vals[i-34]` is the pair `(use_x, x)` of typed field `i` (34..=51). -/
structure AssetSpec where
  name : Option Str
  strs : List (Option Str)
  vals : List (Bool × Bytes)
  deriving Repr, DecidableEq

/-- `pub struct AssetBinary` (asset_binary.rs:557-560). -/
structure AssetBinary where
  flags : Nat
  specs : List AssetSpec
  deriving Repr, DecidableEq

def zero4 : Bytes := [0, 0, 0, 0]

def strField (s : AssetSpec) (i : Nat) : Option Str := (s.strs[i - 1]?).join
def valField (s : AssetSpec) (i : Nat) : Bool × Bytes := s.vals.getD (i - 34) (false, zero4)

/-- Is field `i` to be written (`!x.is_none()` / `use_x`)? -/
def present (s : AssetSpec) (i : Nat) : Bool :=
  if i = 0 then false
  else if i ≤ 33 then (strField s i).isSome
  else if i ≤ 51 then (valField s i).1
  else false

/-- `arr.swap(2, 0)` (asset_binary.rs:114, 120). -/
def swap02 : Bytes → Bytes
  | [a, b, c, d] => [c, b, a, d]
  | x => x

/-- `(flags[byte] & (1 << bit_index)) != 0` with `byte = index / 8`, `bit_index = index % 8`. -/
def flagBit (flags : List Nat) (index : Nat) : Bool :=
  (flags.getD (index / 8) 0) &&& (1 <<< (index % 8)) != 0

/-! ### `from_stream` (asset_binary.rs:141-265) -/

/-- `read_flag_str` (asset_binary.rs:86-98). -/
def readFlagStr (a : BinArchive) (r : Reader) (flags : List Nat) (index : Nat) :
    Res (Option Str × Reader) :=
  if index / 8 ≥ flags.length || !flagBit flags index then .ok (none, r)
  else r.readString a

/-- `read_color` (asset_binary.rs:110-116). -/
def readColor (a : BinArchive) (r : Reader) : Res (Bytes × Reader) :=
  match r.readBytes a 4 with
  | .ok (b, r1) => .ok (swap02 b, r1)
  | .err e => .err e
  | .panic => .panic

/-- asset_binary.rs:152-185, 188-189: the string fields listed in `is`, in order. -/
def readStrs (a : BinArchive) (flags : List Nat) : List Nat → Reader → Res (List (Option Str) × Reader)
  | [], r => .ok ([], r)
  | i :: is, r =>
    match readFlagStr a r flags i with
    | .ok (s, r1) =>
      match readStrs a flags is r1 with
      | .ok (rest, r2) => .ok (s :: rest, r2)
      | .err e => .err e
      | .panic => .panic
    | .err e => .err e
    | .panic => .panic

/-- One `if (flags[b] & mask) != 0 { spec.use_x = true; spec.x = read…(reader)?; }` block
(asset_binary.rs:190-261); an untouched field keeps its `Default` (`false`, zero). -/
def readVal (a : BinArchive) (flags : List Nat) (i : Nat) (r : Reader) : Res ((Bool × Bytes) × Reader) :=
  if flagBit flags i then
    match kindOf i with
    | .color =>
      match readColor a r with
      | .ok (c, r1) => .ok ((true, c), r1)
      | .err e => .err e
      | .panic => .panic
    | _ =>
      match r.readU32 a with               -- `read_u32` / the bit pattern of `read_f32`
      | .ok (n, r1) => .ok ((true, leBytes 4 n), r1)
      | .err e => .err e
      | .panic => .panic
  else .ok ((false, zero4), r)

def readVals (a : BinArchive) (flags : List Nat) : List Nat → Reader → Res (List (Bool × Bytes) × Reader)
  | [], r => .ok ([], r)
  | i :: is, r =>
    match readVal a flags i r with
    | .ok (v, r1) =>
      match readVals a flags is r1 with
      | .ok (rest, r2) => .ok (v :: rest, r2)
      | .err e => .err e
      | .panic => .panic
    | .err e => .err e
    | .panic => .panic

/-- `AssetSpec::from_stream` (asset_binary.rs:141-265). -/
def fromStream (a : BinArchive) (r : Reader) : Res (AssetSpec × Reader) :=
  match r.readU8 a with                                                   -- :143
  | .ok (raw, r) =>
    let flagCount := if raw &&& 1 = 1 then 7 else 3                       -- :142, 144-146
    match r.readBytes a flagCount with                                    -- :148
    | .ok (more, r) =>
      let flags := raw :: more.map (·.toNat)                              -- :147-148
      match r.readString a with                                           -- :151
      | .ok (name, r) =>
        match readStrs a flags (List.range' 1 31) r with                  -- :152-185
        | .ok (s1, r) =>
          if flagCount > 3 then                                           -- :187
            match readStrs a flags [32, 33] r with                        -- :188-189
            | .ok (s2, r) =>
              match readVals a flags (List.range' 34 18) r with           -- :190-261
              | .ok (vals, r) => .ok (⟨name, s1 ++ s2, vals⟩, r)
              | .err e => .err e
              | .panic => .panic
            | .err e => .err e
            | .panic => .panic
          else .ok (⟨name, s1 ++ [none, none], List.replicate 18 (false, zero4)⟩, r)
        | .err e => .err e
        | .panic => .panic
      | .err e => .err e
      | .panic => .panic
    | .err e => .err e
    | .panic => .panic
  | .err e => .err e
  | .panic => .panic

/-! ### `compute_flags` (asset_binary.rs:267-450) -/

/-- `count_bits` (asset_binary.rs:124-132). -/
def countBits (byte : Nat) : Nat := (List.range 8).countP (fun i => byte &&& (1 <<< i) != 0)

/-- Byte `b` of the flag vector after the `flags[b] |= if … { 0 } else { 1 << k }` statements
(asset_binary.rs:269-437): bit `k` is set iff field `8 b + k` is present. -/
def flagByte (s : AssetSpec) (b : Nat) : Nat :=
  (List.range 8).foldl (fun f k => if present s (8 * b + k) then f ||| (1 <<< k) else f) 0

def computeFlags (s : AssetSpec) : List Nat × Nat :=
  let flags := (List.range 8).map (flagByte s)                            -- :268-437
  let flags :=
    if flags.getD 4 0 = 0 ∧ flags.getD 5 0 = 0 ∧ flags.getD 6 0 = 0 then flags.take 4   -- :439-441
    else flags
  let size := flags.length + 4 + (flags.map (fun f => countBits f * 4)).sum             -- :442-445
  let flags := if flags.length > 4 then flags.set 0 (flags.getD 0 0 ||| 1) else flags   -- :446-448
  (flags, size)

/-! ### `append` (asset_binary.rs:452-555) -/

/-- `write_flag_str` (asset_binary.rs:100-108). -/
def writeFlagStr (w : Writer) (v : Option Str) : Res Writer :=
  match v with
  | some s => w.writeString (some s)
  | none => .ok w

/-- `writer.write_bytes(..)?`. -/
def writeBytesR (w : Writer) (v : Bytes) : Res Writer :=
  match w.writeBytes v with
  | (w1, .ok ()) => .ok w1
  | (_, .err e) => .err e
  | (_, .panic) => .panic

/-- `write_color` (asset_binary.rs:118-122). -/
def writeColor (c : Bytes) (w : Writer) : Res Writer := writeBytesR w (swap02 c)

/-- The statement that writes field `i` (asset_binary.rs:460-551). -/
def writeField (s : AssetSpec) (w : Writer) (i : Nat) : Res Writer :=
  match kindOf i with
  | .str => writeFlagStr w (strField s i)
  | .color => if (valField s i).1 then writeColor (valField s i).2 w else .ok w
  | _ => if (valField s i).1 then w.writeU32 (ofLe (valField s i).2) else .ok w

def writeFields (s : AssetSpec) : List Nat → Writer → Res Writer
  | [], w => .ok w
  | i :: is, w =>
    match writeField s w i with
    | .ok w1 => writeFields s is w1
    | .err e => .err e
    | .panic => .panic

/-- `AssetSpec::append` (asset_binary.rs:452-555). -/
def append (s : AssetSpec) (a : BinArchive) : Res BinArchive :=
  let fs := computeFlags s                                                -- :453
  let address := a.size                                                   -- :454
  let a := a.allocateAtEnd fs.2                                           -- :455
  let w : Writer := ⟨a, address⟩                                          -- :456
  match writeBytesR w (fs.1.map UInt8.ofNat) with                         -- :457
  | .ok w =>
    match w.writeString s.name with                                       -- :458
    | .ok w =>
      match writeFields s (List.range' 1 31) w with                       -- :460-493
      | .ok w =>
        if fs.1.length > 4 then                                           -- :495
          match writeFields s (List.range' 32 20) w with                  -- :496-551
          | .ok w => .ok w.archive
          | .err e => .err e
          | .panic => .panic
        else .ok w.archive
      | .err e => .err e
      | .panic => .panic
    | .err e => .err e
    | .panic => .panic
  | .err e => .err e
  | .panic => .panic

/-! ### `AssetBinary` (asset_binary.rs:576-605) -/

theorem step_pos {α : Type} {r : Reader} {w : Nat} {call : Nat → Res α} {v r'}
    (h : r.step w call = .ok (v, r')) : r'.pos = r.pos + w := by
  unfold Reader.step at h
  split at h <;> simp at h
  rw [← h.2]

/-- (The proof covers both forms of the shared `Reader.readBytes`: byte-by-byte and, after the
`read_bytes` repair in `/repo`, one positional range read.) -/
theorem readBytes_pos {a : BinArchive} :
    ∀ (n : Nat) (r : Reader) {v r'}, r.readBytes a n = .ok (v, r') → r'.pos = r.pos + n := by
  first
  | (intro n
     induction n with
     | zero => intro r v r' h; simp [Reader.readBytes] at h; rw [h.2]; rfl
     | succ n ih =>
       intro r v r' h
       unfold Reader.readBytes at h
       cases h1 : r.readU8 a with
       | ok x =>
         obtain ⟨b, r1⟩ := x
         rw [h1] at h; simp only at h
         cases h2 : r1.readBytes a n with
         | ok y =>
           obtain ⟨vs, r2⟩ := y
           rw [h2] at h; simp only [Res.ok.injEq, Prod.mk.injEq] at h
           have := ih _ h2
           have := step_pos h1
           rw [← h.2]; omega
         | err e => rw [h2] at h; simp at h
         | panic => rw [h2] at h; simp at h
       | err e => rw [h1] at h; simp at h
       | panic => rw [h1] at h; simp at h)
  | (intro n r v r' h
     unfold Reader.readBytes at h
     split at h
     · rename_i h0
       simp only [Res.ok.injEq, Prod.mk.injEq] at h
       rw [← h.2, h0]; rfl
     · split at h <;> simp at h
       rw [← h.2])

theorem readU8_lt {a : BinArchive} {r : Reader} {v r'} (h : r.readU8 a = .ok (v, r')) :
    r.pos < a.size := by
  unfold Reader.readU8 Reader.step at h
  split at h
  · rename_i v' hv
    unfold BinArchive.readU8 validateAddress at hv
    by_cases h1 : r.pos ≥ a.size
    · simp [h1] at hv
    · omega
  · simp at h
  · simp at h

theorem readFlagStr_pos {a : BinArchive} {flags : List Nat} {i : Nat} {r : Reader} {v r'}
    (h : readFlagStr a r flags i = .ok (v, r')) : r.pos ≤ r'.pos := by
  unfold readFlagStr at h
  split at h
  · simp at h; rw [h.2]; exact Nat.le_refl _
  · have := step_pos h; omega

theorem readStrs_pos {a : BinArchive} {flags : List Nat} :
    ∀ (is : List Nat) (r : Reader) {v r'}, readStrs a flags is r = .ok (v, r') → r.pos ≤ r'.pos := by
  intro is
  induction is with
  | nil => intro r v r' h; simp [readStrs] at h; rw [h.2]; exact Nat.le_refl _
  | cons i is ih =>
    intro r v r' h
    unfold readStrs at h
    cases h1 : readFlagStr a r flags i with
    | ok x =>
      obtain ⟨s, r1⟩ := x
      rw [h1] at h; simp only at h
      cases h2 : readStrs a flags is r1 with
      | ok y =>
        obtain ⟨rest, r2⟩ := y
        rw [h2] at h; simp only [Res.ok.injEq, Prod.mk.injEq] at h
        have := ih _ h2
        have := readFlagStr_pos h1
        rw [← h.2]; omega
      | err e => rw [h2] at h; simp at h
      | panic => rw [h2] at h; simp at h
    | err e => rw [h1] at h; simp at h
    | panic => rw [h1] at h; simp at h

theorem readVal_pos {a : BinArchive} {flags : List Nat} {i : Nat} {r : Reader} {v r'}
    (h : readVal a flags i r = .ok (v, r')) : r.pos ≤ r'.pos := by
  unfold readVal at h
  split at h
  · split at h
    · unfold readColor at h
      cases h1 : r.readBytes a 4 with
      | ok x =>
        obtain ⟨b, r1⟩ := x
        rw [h1] at h; simp only [Res.ok.injEq, Prod.mk.injEq] at h
        have := readBytes_pos _ _ h1
        rw [← h.2]; omega
      | err e => rw [h1] at h; simp at h
      | panic => rw [h1] at h; simp at h
    · cases h1 : r.readU32 a with
      | ok x =>
        obtain ⟨n, r1⟩ := x
        rw [h1] at h; simp only [Res.ok.injEq, Prod.mk.injEq] at h
        have := step_pos h1
        rw [← h.2]; omega
      | err e => rw [h1] at h; simp at h
      | panic => rw [h1] at h; simp at h
  · simp at h; rw [h.2]; exact Nat.le_refl _

theorem readVals_pos {a : BinArchive} {flags : List Nat} :
    ∀ (is : List Nat) (r : Reader) {v r'}, readVals a flags is r = .ok (v, r') → r.pos ≤ r'.pos := by
  intro is
  induction is with
  | nil => intro r v r' h; simp [readVals] at h; rw [h.2]; exact Nat.le_refl _
  | cons i is ih =>
    intro r v r' h
    unfold readVals at h
    cases h1 : readVal a flags i r with
    | ok x =>
      obtain ⟨s, r1⟩ := x
      rw [h1] at h; simp only at h
      cases h2 : readVals a flags is r1 with
      | ok y =>
        obtain ⟨rest, r2⟩ := y
        rw [h2] at h; simp only [Res.ok.injEq, Prod.mk.injEq] at h
        have := ih _ h2
        have := readVal_pos h1
        rw [← h.2]; omega
      | err e => rw [h2] at h; simp at h
      | panic => rw [h2] at h; simp at h
    | err e => rw [h1] at h; simp at h
    | panic => rw [h1] at h; simp at h

/-- A successfully read record starts inside the data and is not empty. -/
theorem fromStream_pos {a : BinArchive} {r : Reader} {s r'} (h : fromStream a r = .ok (s, r')) :
    r.pos < a.size ∧ r.pos < r'.pos := by
  unfold fromStream at h
  cases h1 : r.readU8 a with
  | ok x =>
    obtain ⟨raw, r1⟩ := x
    refine ⟨readU8_lt h1, ?_⟩
    have p1 := step_pos h1
    rw [h1] at h; simp only at h
    generalize (if raw &&& 1 = 1 then 7 else 3) = fc at h
    cases h2 : r1.readBytes a fc with
    | ok x2 =>
      obtain ⟨more, r2⟩ := x2
      have p2 := readBytes_pos _ _ h2
      rw [h2] at h; simp only at h
      cases h3 : r2.readString a with
      | ok x3 =>
        obtain ⟨name, r3⟩ := x3
        have p3 := step_pos h3
        rw [h3] at h; simp only at h
        cases h4 : readStrs a (raw :: more.map (·.toNat)) (List.range' 1 31) r3 with
        | ok x4 =>
          obtain ⟨s1, r4⟩ := x4
          have p4 := readStrs_pos _ _ h4
          rw [h4] at h; simp only at h
          split at h
          · cases h5 : readStrs a (raw :: more.map (·.toNat)) [32, 33] r4 with
            | ok x5 =>
              obtain ⟨s2, r5⟩ := x5
              have p5 := readStrs_pos _ _ h5
              rw [h5] at h; simp only at h
              cases h6 : readVals a (raw :: more.map (·.toNat)) (List.range' 34 18) r5 with
              | ok x6 =>
                obtain ⟨vals, r6⟩ := x6
                have p6 := readVals_pos _ _ h6
                rw [h6] at h; simp only [Res.ok.injEq, Prod.mk.injEq] at h
                rw [← h.2]; omega
              | err e => rw [h6] at h; simp at h
              | panic => rw [h6] at h; simp at h
            | err e => rw [h5] at h; simp at h
            | panic => rw [h5] at h; simp at h
          · simp only [Res.ok.injEq, Prod.mk.injEq] at h
            rw [← h.2]; omega
        | err e => rw [h4] at h; simp at h
        | panic => rw [h4] at h; simp at h
      | err e => rw [h3] at h; simp at h
      | panic => rw [h3] at h; simp at h
    | err e => rw [h2] at h; simp at h
    | panic => rw [h2] at h; simp at h
  | err e => rw [h1] at h; simp at h
  | panic => rw [h1] at h; simp at h

set_option linter.unusedVariables false in
/-- asset_binary.rs:581-592: `while !error { match AssetSpec::from_stream(&mut reader) { … } }` —
read until the first record that fails (an `Err` ends the loop and is swallowed). -/
def readSpecs (a : BinArchive) (r : Reader) (acc : List AssetSpec) : Res (List AssetSpec) :=
  match h : fromStream a r with
  | .ok (spec, r') => readSpecs a r' (acc ++ [spec])
  | .err _ => .ok acc
  | .panic => .panic
termination_by a.size - r.pos
decreasing_by
  have := fromStream_pos h
  omega

/-- `AssetBinary::from_archive` (asset_binary.rs:576-594). -/
def fromArchive (a : BinArchive) : Res AssetBinary :=
  let r : Reader := ⟨0⟩                                                   -- :578
  match r.readU32 a with                                                  -- :579
  | .ok (flags, r) =>
    match readSpecs a r [] with                                           -- :581-592
    | .ok specs => .ok ⟨flags, specs⟩
    | .err e => .err e
    | .panic => .panic
  | .err e => .err e
  | .panic => .panic

def appendAll : List AssetSpec → BinArchive → Res BinArchive
  | [], a => .ok a
  | s :: rest, a =>
    match append s a with
    | .ok a1 => appendAll rest a1
    | .err e => .err e
    | .panic => .panic

/-- The archive `AssetBinary::serialize` builds before `archive.serialize()` (asset_binary.rs:597-603). -/
def build (b : AssetBinary) : Res BinArchive :=
  let a := (BinArchive.new .little).allocateAtEnd 4                       -- :597-598
  match a.writeUInt 0 4 b.flags with                                      -- :599
  | .ok a =>
    match appendAll b.specs a with                                        -- :600-602
    | .ok a => .ok (a.allocateAtEnd 4)                                    -- :603
    | .err e => .err e
    | .panic => .panic
  | .err e => .err e
  | .panic => .panic

/-- The same construction through the per-record public API on an archive of the caller's byte
order: `BinArchive::new(e)`, `allocate_at_end(4)`, `write_u32(0, flags)`, `AssetSpec::append` per
spec, `allocate_at_end(4)`.  (`append` and `from_stream` take whatever archive they are handed;
flag bytes and colours are bytes, `u32`/`f32` fields and the header word follow the archive's
byte order.) -/
def buildE (e : Endian) (b : AssetBinary) : Res BinArchive :=
  let a := (BinArchive.new e).allocateAtEnd 4
  match a.writeUInt 0 4 b.flags with
  | .ok a =>
    match appendAll b.specs a with
    | .ok a => .ok (a.allocateAtEnd 4)
    | .err e => .err e
    | .panic => .panic
  | .err e => .err e
  | .panic => .panic

theorem build_eq_buildE (b : AssetBinary) : build b = buildE .little b := rfl

/-- `buildE` followed by `archive.serialize()`. -/
def serializeE (c : Codec) (e : Endian) (b : AssetBinary) : Res Bytes :=
  match buildE e b with
  | .ok a => a.serialize c
  | .err er => .err er
  | .panic => .panic

/-- `AssetBinary::serialize` (asset_binary.rs:596-605). -/
def serialize (c : Codec) (b : AssetBinary) : Res Bytes :=
  match build b with
  | .ok a => a.serialize c                                                -- :604
  | .err e => .err e
  | .panic => .panic

end Mila.Asset
