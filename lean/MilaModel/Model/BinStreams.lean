/-
Model of `src/bin_streams.rs`: stream reader / writer = positional call at the cursor, cursor
advanced by the width of each successful value access (label accesses do not move it).
-/
import MilaModel.Model.BinArchive

namespace Mila
open BinArchive

/-- `BinArchiveReader`: the archive is borrowed immutably, so only the cursor is state. -/
structure Reader where
  pos : Nat
  deriving Repr, DecidableEq

namespace Reader

def seek (_r : Reader) (p : Nat) : Reader := ⟨p⟩
def skip (r : Reader) (n : Nat) : Reader := ⟨r.pos + n⟩   -- precondition: no 64-bit overflow
def tell (r : Reader) : Nat := r.pos

/-- Generic "positional call, then advance by `w` on success". -/
def step {α : Type} (r : Reader) (w : Nat) (call : Nat → Res α) : Res (α × Reader) :=
  match call r.pos with
  | .ok v => .ok (v, ⟨r.pos + w⟩)
  | .err e => .err e
  | .panic => .panic

def readU8 (a : BinArchive) (r : Reader) := r.step 1 (BinArchive.readU8 a)
def readU16 (a : BinArchive) (r : Reader) := r.step 2 (BinArchive.readU16 a)
def readU32 (a : BinArchive) (r : Reader) := r.step 4 (BinArchive.readU32 a)
def readF32Bits (a : BinArchive) (r : Reader) := r.step 4 (BinArchive.readU32 a)
def readString (a : BinArchive) (r : Reader) := r.step 4 (BinArchive.readString a)
def readPointer (a : BinArchive) (r : Reader) := r.step 4 (BinArchive.readPointer a)
def readCString (c : Codec) (a : BinArchive) (r : Reader) := r.step 4 (BinArchive.readCString c a)
def readLabels (a : BinArchive) (r : Reader) : Res (Option (List Str)) := BinArchive.readLabels a r.pos
def readLabel (a : BinArchive) (r : Reader) (index : Nat) : Res (Option Str) :=
  match BinArchive.readLabels a r.pos with
  | .ok (some bucket) => .ok bucket[index]?
  | .ok none => .ok none
  | .err e => .err e
  | .panic => .panic

/-- `read_bytes(count)` (after fix D19): an empty read succeeds at any cursor; otherwise it is the
positional `read_bytes` at the cursor, which then advances by `count`.  A failure changes nothing. -/
def readBytes (a : BinArchive) (r : Reader) (count : Nat) : Res (Bytes × Reader) :=
  if count = 0 then .ok ([], r) else
  match BinArchive.readBytes a r.pos count with
  | .ok b => .ok (b, ⟨r.pos + count⟩)
  | .err e => .err e
  | .panic => .panic

/-- Cursor after a *failed* `read_bytes(count)`: unchanged (fix D19). -/
def readBytesFailPos (_a : BinArchive) (r : Reader) (_count : Nat) : Nat := r.pos

/-- `EncodedStringReader for BinArchiveReader`: bytes up to the terminator, then align to 4. -/
def alignUp (p : Nat) : Nat := p + (4 - p % 4) % 4

def readSjisAligned (c : Codec) (a : BinArchive) (r : Reader) : Res (Str × Reader) :=
  match cstrBytes (a.data.drop r.pos) with
  | some b => .ok (c.dec b, ⟨alignUp (r.pos + b.length + 1)⟩)
  | none => .err .Unterminated

/-- `read_bytes(count)` with the cursor in every case (the harness reads `tell()` back even after
a failure): result, and the reader left behind. -/
def readBytesFull (a : BinArchive) (r : Reader) (count : Nat) : Res Bytes × Reader :=
  match readBytes a r count with
  | .ok (b, r') => (.ok b, r')
  | .err e => (.err e, ⟨readBytesFailPos a r count⟩)
  | .panic => (.panic, r)

/-- `read_shift_jis_string` before decoding, with the cursor in every case: on success the
cursor is aligned up to 4 after the terminator; on failure (`UnterminatedString`) every byte up
to the end of the data has been consumed. -/
def readSjisRawFull (a : BinArchive) (r : Reader) : Res Bytes × Reader :=
  match cstrBytes (a.data.drop r.pos) with
  | some b => (.ok b, ⟨alignUp (r.pos + b.length + 1)⟩)
  | none => (.err .Unterminated, ⟨if r.pos < a.size then a.size else r.pos⟩)

def readI8 (a : BinArchive) (r : Reader) : Res (Int × Reader) :=
  (readU8 a r).map (fun p => (toSigned 8 p.1, p.2))
def readI16 (a : BinArchive) (r : Reader) : Res (Int × Reader) :=
  (readU16 a r).map (fun p => (toSigned 16 p.1, p.2))
def readI32 (a : BinArchive) (r : Reader) : Res (Int × Reader) :=
  (readU32 a r).map (fun p => (toSigned 32 p.1, p.2))

end Reader

/-- `BinArchiveWriter`: state is the archive and the cursor. -/
structure Writer where
  archive : BinArchive
  pos : Nat
  deriving Repr

namespace Writer

def seek (w : Writer) (p : Nat) : Writer := { w with pos := p }
def skip (w : Writer) (n : Nat) : Writer := { w with pos := w.pos + n }

def step (w : Writer) (width : Nat) (call : BinArchive → Nat → Res BinArchive) : Res Writer :=
  match call w.archive w.pos with
  | .ok a => .ok ⟨a, w.pos + width⟩
  | .err e => .err e
  | .panic => .panic

def writeU8 (w : Writer) (v : Nat) := w.step 1 (fun a p => a.writeU8 p v)
def writeU16 (w : Writer) (v : Nat) := w.step 2 (fun a p => a.writeUInt p 2 v)
def writeU32 (w : Writer) (v : Nat) := w.step 4 (fun a p => a.writeUInt p 4 v)
def writeString (w : Writer) (v : Option Str) := w.step 4 (fun a p => a.writeString p v)
def writeCString (w : Writer) (v : Str) := w.step 4 (fun a p => a.writeCString p v)
def writePointer (w : Writer) (v : Option Nat) := w.step 4 (fun a p => a.writePointer p v)
def writeLabel (w : Writer) (v : Str) := w.step 0 (fun a p => a.writeLabel p v)

def writeF32Bits (w : Writer) (v : Nat) := w.step 4 (fun a p => a.writeUInt p 4 v)
def writeI8 (w : Writer) (v : Int) := w.writeU8 (ofSigned 8 v)
def writeI16 (w : Writer) (v : Int) := w.writeU16 (ofSigned 16 v)
def writeI32 (w : Writer) (v : Int) := w.writeU32 (ofSigned 32 v)
def tell (w : Writer) : Nat := w.pos
def size (w : Writer) : Nat := w.archive.size

/-- `write_bytes` (after fix D19): an empty write succeeds at any cursor; otherwise it is the
positional `write_bytes` at the cursor, which then advances by the length.  A failure changes
nothing (the writer is returned in every case because the harness reads the cursor back). -/
def writeBytes (w : Writer) (v : Bytes) : Writer × Res Unit :=
  if v.isEmpty then (w, .ok ()) else
  match w.archive.writeBytes w.pos v with
  | .ok a => (⟨a, w.pos + v.length⟩, .ok ())
  | .err e => (w, .err e)
  | .panic => (w, .panic)

/-- `allocate`: at the end of the archive it appends (always accepted), else `BinArchive::allocate`. -/
def allocate (w : Writer) (amount : Nat) (ge : Bool) : Res Writer :=
  if w.pos = w.archive.size then .ok { w with archive := w.archive.allocateAtEnd amount }
  else match w.archive.allocate w.pos amount ge with
    | .ok a => .ok { w with archive := a }
    | .err e => .err e
    | .panic => .panic

def allocateAtEnd (w : Writer) (amount : Nat) : Writer :=
  { w with archive := w.archive.allocateAtEnd amount }

end Writer
end Mila
