/-
Model of `src/localization.rs` (C14).  Paths are UTF-8 byte strings; `/` is 0x2F.
`Path::parent` / `Path::file_name` are modelled after std's Unix `Components` iterator:
empty pieces and `.` pieces are skipped (a leading `.` is a `CurDir` component), `parent` is the
prefix of the *original* string ending at the last-but-one component.
-/
import MilaModel.Basic

namespace Mila.Localize

inductive Game | NoOp | FE9 | FE10 | FE13 | FE14 | FE15
  deriving DecidableEq, Repr
inductive Language | EnglishNA | EnglishEU | Japanese | Spanish | French | Italian | German | Dutch
  deriving DecidableEq, Repr

def slash : UInt8 := 0x2F
def dot : UInt8 := 0x2E
def str (s : String) : Bytes := s.toUTF8.toList

/-- A piece is a path component iff it is non-empty and not `.`; piece 0 of a relative path
also counts when it is `.` (std's `include_cur_dir`). -/
def isComp (rooted : Bool) (i : Nat) (p : Bytes) : Bool :=
  if p = [dot] then (i == 0 && !rooted) else !p.isEmpty

/-- Index of the last component among `pieces[0..n)` (searching downwards), if any. -/
def lastComp (rooted : Bool) (pieces : List Bytes) : Nat → Option Nat
  | 0 => none
  | n + 1 =>
    if isComp rooted n (pieces.getD n []) then some n else lastComp rooted pieces n

structure Split where
  parent : Option Bytes
  fileName : Option Bytes
  deriving DecidableEq, Repr

/-- `(path.parent(), path.file_name())` as byte strings. -/
def pathSplit (path : Bytes) : Split :=
  let rooted := path.head? = some slash
  let pieces := splitOn' slash path
  -- for a rooted path piece 0 is the empty string before the first `/`; it is never a component
  match lastComp rooted pieces pieces.length with
  | none => ⟨none, none⟩                       -- "", "/", "//": no component or only RootDir
  | some l =>
    let last := pieces.getD l []
    let fileName : Option Bytes :=
      if last = [dot, dot] then none
      else if last = [dot] then none
      else some last
    let parent : Bytes :=
      match lastComp rooted pieces l with
      | some l' => joinWith slash (pieces.take (l' + 1))
      | none => if rooted then [slash] else []
    ⟨some parent, fileName⟩

/-- `get_parent_and_file_name` (after the D13 fix: emptiness is tested without `trim`). -/
def parentAndFileName (path : Bytes) : Res (Bytes × Bytes) :=
  let s := pathSplit path
  match s.parent with
  | none => .err .MissingParent
  | some parent =>
    match s.fileName with
    | none => .err .MissingFileName
    | some f => if parent.isEmpty then .ok (f, []) else .ok (parent, f)

/-- The string pushed between directory and file name, `none` = `UnsupportedLanguage`. -/
def infixStr : Game → Language → Option Bytes
  | .NoOp, _ => some (bs [])   -- unused
  | .FE9, .Spanish => some (bs ['/', 's', '_']) | .FE9, .German => some (bs ['/', 'd', '_']) | .FE9, .Italian => some (bs ['/', 'i', '_'])
  | .FE9, .French => some (bs ['/', 'f', '_'])
  | .FE9, .Japanese => some (bs ['/']) | .FE9, .EnglishNA => some (bs ['/']) | .FE9, .EnglishEU => some (bs ['/'])
  | .FE9, .Dutch => none
  | .FE10, .EnglishNA => some (bs ['/', 'e', '_']) | .FE10, .EnglishEU => some (bs ['/', 'e', '_']) | .FE10, .Spanish => some (bs ['/', 's', '_'])
  | .FE10, .German => some (bs ['/', 'd', '_']) | .FE10, .Italian => some (bs ['/', 'i', '_']) | .FE10, .French => some (bs ['/', 'f', '_'])
  | .FE10, .Japanese => some (bs ['/']) | .FE10, .Dutch => none
  | .FE13, .EnglishNA => some (bs ['/', 'E', '/']) | .FE13, .EnglishEU => some (bs ['/', 'U', '/']) | .FE13, .Japanese => some (bs ['/'])
  | .FE13, .Spanish => some (bs ['/', 'S', '/']) | .FE13, .French => some (bs ['/', 'F', '/']) | .FE13, .German => some (bs ['/', 'G', '/'])
  | .FE13, .Italian => some (bs ['/', 'I', '/']) | .FE13, .Dutch => none
  | .FE14, .EnglishNA => some (bs ['/', '@', 'E', '/']) | .FE14, .EnglishEU => some (bs ['/', '@', 'U', '/']) | .FE14, .Japanese => some (bs ['/'])
  | .FE14, .Spanish => some (bs ['/', '@', 'S', '/']) | .FE14, .French => some (bs ['/', '@', 'F', '/']) | .FE14, .German => some (bs ['/', '@', 'G', '/'])
  | .FE14, .Italian => some (bs ['/', '@', 'I', '/']) | .FE14, .Dutch => none
  | .FE15, .EnglishNA => some (bs ['/', '@', 'N', 'O', 'A', '_', 'E', 'N', '/']) | .FE15, .EnglishEU => some (bs ['/', '@', 'N', 'O', 'E', '_', 'E', 'N', '/'])
  | .FE15, .Japanese => some (bs ['/', '@', 'J', '/']) | .FE15, .Spanish => some (bs ['/', '@', 'N', 'O', 'E', '_', 'S', 'P', '/'])
  | .FE15, .French => some (bs ['/', '@', 'N', 'O', 'E', '_', 'F', 'R', '/']) | .FE15, .German => some (bs ['/', '@', 'N', 'O', 'E', '_', 'G', 'E', '/'])
  | .FE15, .Italian => some (bs ['/', '@', 'N', 'O', 'E', '_', 'I', 'T', '/']) | .FE15, .Dutch => some (bs ['/', '@', 'N', 'O', 'E', '_', 'D', 'U', '/'])

/-- `PathLocalizer::localize`. The split happens before the language match, as in the Rust. -/
def localize (g : Game) (lang : Language) (path : Bytes) : Res Bytes :=
  match g with
  | .NoOp => .ok path
  | _ =>
    match parentAndFileName path with
    | .err e => .err e
    | .panic => .panic
    | .ok (dir, file) =>
      match infixStr g lang with
      | none => .err .Unsupported
      | some m => .ok (dir ++ m ++ file)

end Mila.Localize
