/-
Text codecs (M4).  Strings are UTF-8 byte strings (`Str`).  Archive logic is parametric in a
`Codec`; theorems assume `Codec.Faithful` on the property's domain.  `sjisSub` is an executable
sub-codec of Shift-JIS (ASCII, half-width katakana, hiragana, full-width katakana, Greek, Cyrillic) used by the
driver; the harness validates it against `encoding_rs` exhaustively and only generates strings
inside it.
-/
import MilaModel.Basic

namespace Mila

abbrev Str := Bytes

structure Codec where
  /-- `to_shift_jis`: `none` = `EncodingFailed`. -/
  enc : Str → Option Bytes
  /-- `SHIFT_JIS.decode` of a NUL-free byte string (never fails: malformed input is replaced). -/
  dec : Bytes → Str

/-- The codec represents every string of the domain `D` losslessly and NUL-free. -/
def Codec.Faithful (c : Codec) (D : Str → Prop) : Prop :=
  ∀ s, D s → ∃ b, c.enc s = some b ∧ (0 : UInt8) ∉ b ∧ c.dec b = s

namespace Sjis

/-- UTF-8 → code points, for 1- and 3-byte sequences only (`none` otherwise). -/
def utf8Decode : Bytes → Option (List Nat)
  | [] => some []
  | b0 :: rest =>
    if b0 < 0x80 then (utf8Decode rest).map (b0.toNat :: ·)
    else if 0xC2 ≤ b0 ∧ b0 ≤ 0xDF then
      match rest with
      | b1 :: rest' =>
        if 0x80 ≤ b1 ∧ b1 ≤ 0xBF then
          (utf8Decode rest').map (((b0.toNat % 32) * 64 + (b1.toNat % 64)) :: ·)
        else none
      | _ => none
    else if 0xE0 ≤ b0 ∧ b0 ≤ 0xEF then
      match rest with
      | b1 :: b2 :: rest' =>
        if 0x80 ≤ b1 ∧ b1 ≤ 0xBF ∧ 0x80 ≤ b2 ∧ b2 ≤ 0xBF then
          (utf8Decode rest').map
            (((b0.toNat % 16) * 4096 + (b1.toNat % 64) * 64 + (b2.toNat % 64)) :: ·)
        else none
      | _ => none
    else none

def utf8Encode1 (cp : Nat) : Bytes :=
  if cp < 0x80 then [UInt8.ofNat cp]
  else if cp < 0x800 then [UInt8.ofNat (0xC0 + cp / 64), UInt8.ofNat (0x80 + cp % 64)]
  else [UInt8.ofNat (0xE0 + cp / 4096), UInt8.ofNat (0x80 + (cp / 64) % 64), UInt8.ofNat (0x80 + cp % 64)]

/-- Double-byte rows of the sub-codec: `(first code point, last code point, lead byte, first trail byte)`.
Greek and Cyrillic are the classes whose UTF-8 and Shift-JIS encodings have the same length. -/
def table : List (Nat × Nat × Nat × Nat) :=
  [ (0x3041, 0x3093, 0x82, 0x9F), (0x30A1, 0x30DF, 0x83, 0x40), (0x30E0, 0x30F6, 0x83, 0x80),
    (0x0391, 0x03A1, 0x83, 0x9F), (0x03A3, 0x03A9, 0x83, 0xB0), (0x03B1, 0x03C1, 0x83, 0xBF),
    (0x03C3, 0x03C9, 0x83, 0xD0), (0x0410, 0x0415, 0x84, 0x40), (0x0416, 0x042F, 0x84, 0x47),
    (0x0430, 0x0435, 0x84, 0x70), (0x0436, 0x043D, 0x84, 0x77), (0x043E, 0x044F, 0x84, 0x80) ]

def encCp (cp : Nat) : Option Bytes :=
  if cp < 0x80 then some [UInt8.ofNat cp]
  else if 0xFF61 ≤ cp ∧ cp ≤ 0xFF9F then some [UInt8.ofNat (cp - 0xFF61 + 0xA1)]
  else match table.find? (fun r => r.1 ≤ cp && cp ≤ r.2.1) with
    | some (lo, _, lead, base) => some [UInt8.ofNat lead, UInt8.ofNat (base + (cp - lo))]
    | none => none

/-- Code point of the double-byte code `lead trail`, if it lies in a row of the table. -/
def decPair (lead trail : Nat) : Option Nat :=
  match table.find? (fun r => r.2.2.1 == lead && r.2.2.2 ≤ trail && trail ≤ r.2.2.2 + (r.2.1 - r.1)) with
  | some (lo, _, _, base) => some (lo + (trail - base))
  | none => none

def encCps : List Nat → Option Bytes
  | [] => some []
  | cp :: rest => do
    let a ← encCp cp
    let b ← encCps rest
    pure (a ++ b)

def enc (s : Str) : Option Bytes := (utf8Decode s).bind encCps

/-- U+FFFD in UTF-8, emitted for anything outside the sub-codec. -/
def replacement : Bytes := [0xEF, 0xBF, 0xBD]

def dec : Bytes → Str
  | [] => []
  | b0 :: rest =>
    if b0 < 0x80 then b0 :: dec rest
    else if 0xA1 ≤ b0 ∧ b0 ≤ 0xDF then utf8Encode1 (0xFF61 + (b0.toNat - 0xA1)) ++ dec rest
    else if b0 = 0x82 ∨ b0 = 0x83 ∨ b0 = 0x84 then
      match rest with
      | b1 :: rest' =>
        match decPair b0.toNat b1.toNat with
        | some cp => utf8Encode1 cp ++ dec rest'
        | none => replacement ++ dec rest'
      | [] => replacement
    else replacement ++ dec rest

end Sjis

/-- The executable sub-codec used by the driver. -/
def sjisSub : Codec := ⟨Sjis.enc, Sjis.dec⟩

end Mila
