/-
Text codecs (M4).  Strings are UTF-8 byte strings (`Str`).  Archive logic is parametric in a
`Codec`; theorems assume `Codec.Faithful` on the property's domain.  `sjisSub` is an executable
sub-codec of Shift-JIS (ASCII, half-width katakana, hiragana, full-width katakana) used by the
driver; the harness validates it against `encoding_rs` exhaustively and only generates strings
inside it.
-/
import MilaModel.Basic

namespace Mila

abbrev Str := Bytes

structure Codec where
  /-- `to_shift_jis`: `none` = `EncodingFailed`. -/
  enc : Str → Option Bytes
  /-- `SHIFT_JIS.decode` of a NUL-free byte string (never fails: malformed input is replaced). -/
  dec : Bytes → Str

/-- The codec represents every string of the domain `D` losslessly and NUL-free. -/
def Codec.Faithful (c : Codec) (D : Str → Prop) : Prop :=
  ∀ s, D s → ∃ b, c.enc s = some b ∧ (0 : UInt8) ∉ b ∧ c.dec b = s

namespace Sjis

/-- UTF-8 → code points, for 1- and 3-byte sequences only (`none` otherwise). -/
def utf8Decode : Bytes → Option (List Nat)
  | [] => some []
  | b0 :: rest =>
    if b0 < 0x80 then (utf8Decode rest).map (b0.toNat :: ·)
    else if 0xE0 ≤ b0 ∧ b0 ≤ 0xEF then
      match rest with
      | b1 :: b2 :: rest' =>
        if 0x80 ≤ b1 ∧ b1 ≤ 0xBF ∧ 0x80 ≤ b2 ∧ b2 ≤ 0xBF then
          (utf8Decode rest').map
            (((b0.toNat % 16) * 4096 + (b1.toNat % 64) * 64 + (b2.toNat % 64)) :: ·)
        else none
      | _ => none
    else none

def utf8Encode1 (cp : Nat) : Bytes :=
  if cp < 0x80 then [UInt8.ofNat cp]
  else if cp < 0x800 then [UInt8.ofNat (0xC0 + cp / 64), UInt8.ofNat (0x80 + cp % 64)]
  else [UInt8.ofNat (0xE0 + cp / 4096), UInt8.ofNat (0x80 + (cp / 64) % 64), UInt8.ofNat (0x80 + cp % 64)]

def encCp (cp : Nat) : Option Bytes :=
  if cp < 0x80 then some [UInt8.ofNat cp]
  else if 0xFF61 ≤ cp ∧ cp ≤ 0xFF9F then some [UInt8.ofNat (cp - 0xFF61 + 0xA1)]
  else if 0x3041 ≤ cp ∧ cp ≤ 0x3093 then some [0x82, UInt8.ofNat (0x9F + (cp - 0x3041))]
  else if 0x30A1 ≤ cp ∧ cp ≤ 0x30DF then some [0x83, UInt8.ofNat (0x40 + (cp - 0x30A1))]
  else if 0x30E0 ≤ cp ∧ cp ≤ 0x30F6 then some [0x83, UInt8.ofNat (0x80 + (cp - 0x30E0))]
  else none

def encCps : List Nat → Option Bytes
  | [] => some []
  | cp :: rest => do
    let a ← encCp cp
    let b ← encCps rest
    pure (a ++ b)

def enc (s : Str) : Option Bytes := (utf8Decode s).bind encCps

/-- U+FFFD in UTF-8, emitted for anything outside the sub-codec. -/
def replacement : Bytes := [0xEF, 0xBF, 0xBD]

def dec : Bytes → Str
  | [] => []
  | b0 :: rest =>
    if b0 < 0x80 then b0 :: dec rest
    else if 0xA1 ≤ b0 ∧ b0 ≤ 0xDF then utf8Encode1 (0xFF61 + (b0.toNat - 0xA1)) ++ dec rest
    else if b0 = 0x82 then
      match rest with
      | b1 :: rest' =>
        if 0x9F ≤ b1 ∧ b1 ≤ 0xF1 then utf8Encode1 (0x3041 + (b1.toNat - 0x9F)) ++ dec rest'
        else replacement ++ dec rest'
      | [] => replacement
    else if b0 = 0x83 then
      match rest with
      | b1 :: rest' =>
        if 0x40 ≤ b1 ∧ b1 ≤ 0x7E then utf8Encode1 (0x30A1 + (b1.toNat - 0x40)) ++ dec rest'
        else if 0x80 ≤ b1 ∧ b1 ≤ 0x96 then utf8Encode1 (0x30E0 + (b1.toNat - 0x80)) ++ dec rest'
        else replacement ++ dec rest'
      | [] => replacement
    else replacement ++ dec rest

end Sjis

/-- The executable sub-codec used by the driver. -/
def sjisSub : Codec := ⟨Sjis.enc, Sjis.dec⟩

end Mila
