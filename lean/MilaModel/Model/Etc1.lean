/-
Model of `src/etc1.rs` (C19) and of the format dispatch `texture_decoder.rs:156-164`.

`u8` arithmetic is explicit: `Wrapping(input) - Wrapping(1 << bits)` and `r.wrapping_add(..)`
(etc1.rs:47-49, 105-107, after the D14 fix) reduce mod 256 in both profiles; `r2 << 3` on a `u8`
silently drops the high bits.  The colour/modifier sum is `i32` arithmetic, modelled on `Int`.
`f64` tile counts (etc1.rs:56-57) are modelled by their exact integer value
`2 ^ ⌊log2 ⌈n/8⌉⌋` (assumption M5, checked against the code for every size of the domain).
-/
import MilaModel.Model.Pixel

namespace Mila
namespace Etc1
open Pixel

/-- etc1.rs:28-39 `get_etc_modifiers_table`. -/
def modifiers : List (Nat × Nat) :=
  [(2, 8), (5, 17), (9, 29), (13, 42), (18, 60), (24, 80), (33, 106), (47, 183)]

/-- etc1.rs:41-49 `complement(input: u8, bits: u8) -> u8`. -/
def complement (input bits : Nat) : Nat :=
  if input / 2 ^ (bits - 1) = 0 then input
  else (input + 256 - (2 ^ bits) % 256) % 256

/-- `(c << 3) | ((c >> 2) & 7)` on `u8` (etc1.rs:97-99, 109-111). -/
def expand5 (c : Nat) : Nat := ((c * 8) % 256) ||| (c / 4 % 8)

/-- The two base colours of a block (etc1.rs:90-120), from the 64-bit block word. -/
def baseColors (pixels : Nat) : (Nat × Nat × Nat) × (Nat × Nat × Nat) :=
  let differential := pixels / 2 ^ 33 % 2 = 1                          -- :83
  if differential then
    let r := pixels / 2 ^ 59 % 32                                       -- :93
    let g := pixels / 2 ^ 51 % 32
    let b := pixels / 2 ^ 43 % 32
    let r2 := (r + complement (pixels / 2 ^ 56 % 8) 3) % 256            -- :101-107 wrapping_add
    let g2 := (g + complement (pixels / 2 ^ 48 % 8) 3) % 256
    let b2 := (b + complement (pixels / 2 ^ 40 % 8) 3) % 256
    ((expand5 r, expand5 g, expand5 b), (expand5 r2, expand5 g2, expand5 b2))
  else
    ((pixels / 2 ^ 60 % 16 * 0x11 % 256, pixels / 2 ^ 52 % 16 * 0x11 % 256, pixels / 2 ^ 44 % 16 * 0x11 % 256),
     (pixels / 2 ^ 56 % 16 * 0x11 % 256, pixels / 2 ^ 48 % 16 * 0x11 % 256, pixels / 2 ^ 40 % 16 * 0x11 % 256))

/-- `(c as i32 + amount).min(0xFF).max(0) as u8` (etc1.rs:166-168). -/
def clampAdd (c : Nat) (amount : Int) : Nat := (max (min ((c : Int) + amount) 0xFF) 0).toNat

/-- One texel of a block (etc1.rs:134-169): `pixel_x`, `pixel_y` in 0..4. -/
def texel (alphas pixels pixel_x pixel_y : Nat) : Rgba :=
  let horizontal := pixels / 2 ^ 32 % 2 = 1                             -- :84
  let table1 := modifiers.getD (pixels / 2 ^ 37 % 8) (0, 0)             -- :85,87
  let table2 := modifiers.getD (pixels / 2 ^ 34 % 8) (0, 0)             -- :86,88
  let (color1, color2) := baseColors pixels
  let amounts := pixels % 2 ^ 16                                        -- :122
  let signs := pixels / 2 ^ 16 % 2 ^ 16                                 -- :123
  let offset := pixel_x * 4 + pixel_y                                   -- :134
  let first := if horizontal then pixel_y < 2 else pixel_x < 2          -- :136-157
  let table := if first then table1 else table2
  let color := if first then color1 else color2
  let sign := signs / 2 ^ offset % 2                                    -- :159
  let mag := if amounts / 2 ^ offset % 2 = 0 then table.1 else table.2  -- :160-164
  let amount : Int := if sign = 1 then -(mag : Int) else (mag : Int)
  ⟨clampAdd color.1 amount, clampAdd color.2.1 amount, clampAdd color.2.2 amount,
   alphas / 2 ^ (offset * 4) % 16 * 0x11 % 256⟩                         -- :169

/-- `bmp[pixel_pos] = ..; .. bmp[pixel_pos + 3] = ..` (etc1.rs:171-174): index panic when out of
range. -/
def put4 (bmp : Buf) (i : Nat) (c : Rgba) : Res Buf :=
  if i + 3 < bmp.size then
    .ok ((((bmp.setIfInBounds i (UInt8.ofNat c.r)).setIfInBounds (i + 1) (UInt8.ofNat c.g)).setIfInBounds
      (i + 2) (UInt8.ofNat c.b)).setIfInBounds (i + 3) (UInt8.ofNat c.a))
  else .panic

/-- etc1.rs:125-176: the two pixel loops of one block. -/
def blockPixels (width height tile_y tile_x block_y block_x alphas pixels : Nat) (bmp : Buf) : Res Buf :=
  forRange 4 (fun pixel_y bmp =>
    forRange 4 (fun pixel_x bmp =>
      let x := pixel_x + block_x * 4 + tile_x * 8                        -- :127
      let y := pixel_y + block_y * 4 + tile_y * 8                        -- :128
      if x ≥ width ∨ y ≥ height then .ok bmp                             -- :130-132
      else put4 bmp ((y * width + x) * 4) (texel alphas pixels pixel_x pixel_y)) bmp) bmp

/-- etc1.rs:63-176: one block; state = (pos, bmp). -/
def blockStep (data : Buf) (width height : Nat) (with_alpha : Bool) (tile_y tile_x block_y block_x : Nat)
    (st : Nat × Buf) : Res (Nat × Buf) :=
  let data_pos := st.1                                                  -- :63
  let bs := if with_alpha then 16 else 8                                -- :64-68
  let pos := data_pos + bs
  -- `&pixel_data[data_pos..data_pos + bs]` :70-74 — slice-index panic when the data is short
  if data_pos + bs ≤ data.size then
    let alphas := if with_alpha then data.leN data_pos 8 else 0xFFFFFFFFFFFFFFFF   -- :76-80
    let pixels := data.leN (if with_alpha then data_pos + 8 else data_pos) 8       -- :81
    match blockPixels width height tile_y tile_x block_y block_x alphas pixels st.2 with
    | .ok bmp => .ok (pos, bmp)
    | .err e => .err e
    | .panic => .panic
  else .panic

/-- `1 << ((n as f64 / 8.0).ceil().log2() as usize)` (etc1.rs:56-57). -/
def tileCount (n : Nat) : Nat := 2 ^ Nat.log2 ((n + 7) / 8)

/-- etc1.rs:51-181 `decode(pixel_data, width, height, with_alpha)`. -/
def decode (p : Profile) (data : Buf) (width height : Nat) (with_alpha : Bool) : Res Buf := do
  let bmp ← (do let n ← mulN 64 p 4 width; let m ← mulN 64 p n height   -- :53 `4 * width * height`
                if m < allocLimit then pure (Buf.zeros m) else Res.panic)
  let tile_width := tileCount width
  let tile_height := tileCount height
  let st ← forRange tile_height (fun tile_y st =>
    forRange tile_width (fun tile_x st =>
      forRange 2 (fun block_y st =>
        forRange 2 (fun block_x st =>
          blockStep data width height with_alpha tile_y tile_x block_y block_x st) st) st) st) (0, bmp)
  pure st.2

end Etc1

namespace Pixel

/-- texture_decoder.rs:156-164 `decode_pixel_data`. -/
def decodePixelData (p : Profile) (data : Buf) (width height format : Nat) : Res Buf :=
  if format ≤ 11 then decodeRgba p data width height format
  else if format = 12 ∨ format = 13 then Etc1.decode p data width height (format = 13)
  else .err .Unsupported

end Pixel
end Mila
