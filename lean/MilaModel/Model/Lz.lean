/-
Model of `src/lz13.rs`, `src/lz10.rs`, `src/compression_format.rs` (C08–C11), transcribed
statement by statement.  Conventions (DESIGN §3):

* byte buffers are `Array UInt8` (`Vec<u8>` / `&[u8]` with O(1) indexing); the decoder's input
  cursor (`position` into `bytes`) is the list of bytes not yet consumed;
* an index out of bounds, a `usize` subtraction that would underflow, and a shift amount that
  would be negative are `Res.panic` (over-approximation valid for both cargo profiles: the
  theorems show these branches are never taken);
* `i32` values are `Int`; `>> k` is floor division by `2^k`, `<< k` multiplication, `& 0x0F` is
  `% 16`, `& 0xFF` is `% 256`, `& 0xF0` is `% 256 / 16 * 16`, `as u8` is `% 256` (two's complement
  meaning of the operators; the magnitudes involved never leave the `i32` range);
* `for` loops are structural recursion on the number of iterations left, `while` loops are
  well-founded recursion on the measure the Rust relies on.
-/
import MilaModel.Basic

namespace Mila.Lz

abbrev BA := Array UInt8

/-! ### `get_occurrence_length` (lz13.rs:7-38) -/

/-- lz13.rs:23-28 `for j in 0..new_length`: `k` iterations left, `j` = `current_length`.
`none` = index out of bounds. -/
def matchLen (x : BA) (a b : Nat) : Nat → Nat → Option Nat
  | 0, j => some j
  | k + 1, j =>
    if h1 : a + j < x.size then
      if h2 : b + j < x.size then
        if x[a + j] != x[b + j] then some j          -- :24-26 break
        else matchLen x a b k (j + 1)                 -- :27
      else none
    else none

/-- lz13.rs:20-36 `for i in 0..(old_length - 1)`: `k` iterations left. -/
def occLoop (x : BA) (newPtr newLen oldPtr oldLen : Nat) : Nat → Nat → Nat → Nat → Res (Nat × Nat)
  | 0, _, disp, maxLen => .ok (maxLen, disp)
  | k + 1, i, disp, maxLen =>
    match matchLen x (oldPtr + i) newPtr newLen 0 with   -- :21-28
    | none => .panic
    | some cur =>
      if cur > maxLen then                              -- :29
        if cur = newLen then .ok (cur, oldLen - i)      -- :30-34 (break)
        else occLoop x newPtr newLen oldPtr oldLen k (i + 1) (oldLen - i) cur
      else occLoop x newPtr newLen oldPtr oldLen k (i + 1) disp maxLen

/-- lz13.rs:7-38; returns `(max_length, disp)`. -/
def occurrence (x : BA) (newPtr newLen oldPtr oldLen : Nat) : Res (Nat × Nat) :=
  if newLen = 0 ∨ oldLen = 0 then .ok (0, 0)            -- :14-16
  else occLoop x newPtr newLen oldPtr oldLen (oldLen - 1) 0 0 0

/-! ### u8 helpers for the token bytes -/

/-- `(v & 0x0F) as u8` -/
def and0F (v : Int) : UInt8 := UInt8.ofNat (v % 16).toNat
/-- `(v & 0xFF) as u8` -/
def andFF (v : Int) : UInt8 := UInt8.ofNat (v % 256).toNat
/-- `(v & 0xF0) as u8` -/
def andF0 (v : Int) : UInt8 := UInt8.ofNat (v % 256 / 16 * 16).toNat

/-- `(1 << (7 - buffered_blocks)) as u8` -/
def flagBit (blocks : Nat) : UInt8 := UInt8.ofNat (2 ^ (7 - blocks))

/-! ### `LZ10CompressionFormat::compress` (lz10.rs:16-63) -/

/-- lz10.rs:27-58 `while read_bytes < bytes.len()`; `outBuf` = `out_buffer[0..buffer_length]`. -/
def compress10Loop (x : BA) (buf outBuf : BA) (blocks read : Nat) : Res BA :=
  if h : read < x.size then
    -- :28-33
    let buf := if blocks = 8 then buf ++ outBuf else buf
    let outBuf := if blocks = 8 then #[0] else outBuf
    let blocks := if blocks = 8 then 0 else blocks
    let oldLen := min read 0x1000                                                    -- :35
    match occurrence x read (min (x.size - read) 0x12) (read - oldLen) oldLen with  -- :36-42
    | .panic => .panic
    | .err e => .err e
    | .ok (len, disp) =>
      if len < 3 then                                                                -- :44
        if outBuf.size + 1 > 17 then .panic                                          -- out_buffer is [u8; 17]
        else compress10Loop x buf (outBuf.push x[read]) (blocks + 1) (read + 1)      -- :45-47, :57
      else
        if blocks > 7 ∨ disp < 1 ∨ outBuf.size = 0 ∨ outBuf.size + 2 > 17 then .panic
        else
          let length : Int := len
          let outBuf := outBuf.modify 0 (· ||| flagBit blocks)                       -- :50
          let b0 := andF0 ((length - 3) * 16)                                        -- :51
          let b0 := b0 ||| and0F (((disp - 1 : Nat) : Int) / 256)                    -- :52
          let outBuf := outBuf.push b0                                               -- :53
          let outBuf := outBuf.push (andFF ((disp - 1 : Nat) : Int))                 -- :54-55
          compress10Loop x buf outBuf (blocks + 1) (read + len)                      -- :49, :57
  else
    .ok (if blocks > 0 then buf ++ outBuf else buf)                                  -- :59-62
termination_by x.size - read
decreasing_by all_goals omega

/-- lz10.rs:16-63 -/
def compress10 (x : BA) : Res BA :=
  let n := x.size
  let buf : BA := #[0x10, UInt8.ofNat (n % 256), UInt8.ofNat (n / 256 % 256), UInt8.ofNat (n / 65536 % 256)]
  compress10Loop x buf #[0] 0 0

/-! ### `calculate_lz13_header` (lz13.rs:111-163)

`Wrapping<i32>` counters: `sp`, `y`, `x`, `length`, `fc` never leave `[0, bytes.len()]` and are
naturals here (inputs below 2^31 bytes, hypothesis of the theorems); `buffer_length` and
`max_lead` are `Int` because `sp - buffer_length` is negative for short inputs. -/

/-- lz13.rs:123-125 inner `while`; returns the final `y`. `none` = `bytes[(y - x) as usize]` out
of bounds (`y < x` makes the index negative, i.e. huge). -/
def hdrRun (b : BA) (x y : Nat) : Option Nat :=
  if h : y < b.size then
    if hx : y < x then none
    else if b[y] == b[y - x] then hdrRun b x (y + 1) else some y
  else some y
termination_by b.size - y

/-- lz13.rs:121-131 `while x.0 >= 2`. -/
def hdrCand (b : BA) (sp : Nat) : Nat → Nat → Option Nat
  | x, length =>
    if x ≥ 2 then
      match hdrRun b x sp with                                    -- :122-125
      | none => none
      | some y =>
        let y := y - sp                                           -- :126
        let length := if y ≥ 3 ∧ y > length then y else length   -- :127-129
        hdrCand b sp (x - 1) length                               -- :130
    else some length
termination_by x => x

/-- lz13.rs:117-160 outer `while`. -/
def hdrLoop (b : BA) (sp : Nat) (maxLead bufLen : Int) (fc : Nat) : Res Nat :=
  if _h : sp < b.size then
    match hdrCand b sp (min sp 4096) 1 with                       -- :118-131
    | none => .panic
    | some length =>
      if length = 1 then                                          -- :133-135
        let bufLen := bufLen + 1
        let sp := sp + 1
        let maxLead := max maxLead ((sp : Int) - bufLen)          -- :153
        let fc := fc + 1                                          -- :155
        if fc = 8 then hdrLoop b sp maxLead (bufLen + 1) 0        -- :156-159
        else hdrLoop b sp maxLead bufLen fc
      else if length ≤ 2 then .err .Invalid                       -- :139-142
      else
        let sp := sp + length                                     -- :137
        let bufLen := bufLen + (if length ≤ 0x10 then 1 else if length ≤ 0x110 then 2 else 3)  -- :143-149
        let bufLen := bufLen + 1                                  -- :150
        let maxLead := max maxLead ((sp : Int) - bufLen)
        let fc := fc + 1
        if fc = 8 then hdrLoop b sp maxLead (bufLen + 1) 0
        else hdrLoop b sp maxLead bufLen fc
  else .ok ((maxLead + bufLen) % 2 ^ 64).toNat                     -- :162
termination_by b.size - sp
decreasing_by all_goals omega

def lz13Header (b : BA) : Res Nat := hdrLoop b 0 0 9 0

/-! ### `LZ13CompressionFormat::compress` (lz13.rs:173-241) -/

/-- The size passed to `result.reserve` (lz13.rs:178); `n - 1` is `saturating_sub`. -/
def reserve13 (n : Nat) : Nat := 13 + n + (n - 1) / 8

/-- lz13.rs:198-236 -/
def compress13Loop (x : BA) (result outBuf : BA) (blocks read : Nat) : Res BA :=
  if h : read < x.size then
    -- :200-204
    let result := if blocks = 8 then result ++ outBuf else result
    let outBuf := if blocks = 8 then #[0] else outBuf
    let blocks := if blocks = 8 then 0 else blocks
    let oldLen := min read 0x1000                                                      -- :206
    match occurrence x read (min (x.size - read) 0x1000) (read - oldLen) oldLen with  -- :207-213
    | .panic => .panic
    | .err e => .err e
    | .ok (len, disp) =>
      if len < 3 then                                                                  -- :215
        compress13Loop x result (outBuf.push x[read]) (blocks + 1) (read + 1)          -- :216-217
      else
        if blocks > 7 ∨ disp < 1 ∨ outBuf.size = 0 then .panic
        else
          let length : Int := len
          let outBuf := outBuf.modify 0 (· ||| flagBit blocks)                         -- :220
          let outBuf :=
            if length > 0x110 then                                                     -- :221-224
              ((outBuf.push (0x10 ||| and0F ((length - 0x111) / 4096))).push
                (andFF ((length - 0x111) / 16))).push (andF0 ((length - 0x111) * 16))
            else if length > 0x10 then                                                 -- :225-227
              (outBuf.push (and0F ((length - 0x111) / 16))).push (andF0 ((length - 0x111) * 16))
            else outBuf.push (andF0 ((length - 1) * 16))                               -- :229
          let lastIndex := outBuf.size - 1                                             -- :231
          let outBuf := outBuf.modify lastIndex (· ||| and0F (((disp - 1 : Nat) : Int) / 256))  -- :232
          let outBuf := outBuf.push (andFF ((disp - 1 : Nat) : Int))                   -- :233
          compress13Loop x result outBuf (blocks + 1) (read + len)                     -- :219, :235
  else
    .ok (if blocks > 0 then result ++ outBuf else result)                              -- :237-240
termination_by x.size - read
decreasing_by all_goals omega

/-- lz13.rs:173-241; also returns the `reserve` request. -/
def compress13 (x : BA) : Res BA × Nat :=
  let length := x.size
  match lz13Header x with                                                              -- :177
  | .panic => (.panic, 0)
  | .err e => (.err e, 0)
  | .ok l =>
    let result : BA := #[0x13, UInt8.ofNat (l % 256), UInt8.ofNat (l / 256 % 256), UInt8.ofNat (l / 65536 % 256),
      0x11, UInt8.ofNat (length % 256), UInt8.ofNat (length / 256 % 256), UInt8.ofNat (length / 65536 % 256)]
    let result := if length = 0 then result ++ #[0, 0, 0, 0] else result              -- :187-190
    (compress13Loop x result #[0] 0 0, reserve13 length)

/-! ### `decompress_lz` (lz13.rs:44-108) -/

/-- The `next` closure (lz13.rs:46-50). -/
def next : Bytes → Option (Nat × Bytes)
  | [] => none
  | b :: s => some (b.toNat, s)

/-- The `read_u32` closure (lz13.rs:51-53); the `|` of the shifted bytes is their sum. -/
def readU32 (s : Bytes) : Option (Nat × Bytes) :=
  match next s with
  | none => none
  | some (a, s) =>
    match next s with
    | none => none
    | some (b, s) =>
      match next s with
      | none => none
      | some (c, s) =>
        match next s with
        | none => none
        | some (d, s) => some (a + b * 2 ^ 8 + c * 2 ^ 16 + d * 2 ^ 24, s)

/-- lz13.rs:101-104 `for i in 0..count`: `k` iterations left. -/
def copyLoop (start : Nat) : Nat → Nat → BA → Res BA
  | 0, _, out => .ok out
  | k + 1, i, out =>
    if h : start + i < out.size then copyLoop start k (i + 1) (out.push out[start + i])
    else .panic

/-- Reference decoding (lz13.rs:77-96): `(count, disp, rest)`. -/
def decodeRef (ext : Bool) (s : Bytes) : Option (Nat × Nat × Bytes) :=
  match next s with
  | none => none
  | some (byte0, s) =>
    match next s with
    | none => none
    | some (byte1, s) =>
      if !ext then some (byte0 / 16 + 3, byte0 % 16 * 256 + byte1, s)              -- :79-80
      else if byte0 / 16 > 1 then some (byte0 / 16 + 1, byte0 % 16 * 256 + byte1, s)  -- :81-82
      else if byte0 / 16 = 0 then                                                  -- :83-88
        match next s with
        | none => none
        | some (byte2, s) => some (byte0 % 16 * 16 + byte1 / 16 + 0x11, byte1 % 16 * 256 + byte2, s)
      else                                                                         -- :89-95
        match next s with
        | none => none
        | some (byte2, s) =>
          match next s with
          | none => none
          | some (byte3, s) =>
            some (byte0 % 16 * 4096 + byte1 * 16 + byte2 / 16 + 0x111, byte2 % 16 * 256 + byte3, s)

/-- lz13.rs:69-105 `for bit_no in (0..8).rev()`: argument `k = bit_no + 1`. -/
def bitLoop (ext : Bool) (length flags : Nat) : Nat → Bytes → BA → Res (Bytes × BA)
  | 0, s, out => .ok (s, out)
  | k + 1, s, out =>
    if out.size ≥ length then .ok (s, out)                         -- :70-72
    else if (flags >>> k) &&& 1 = 0 then                           -- :73-76
      match next s with
      | none => .err .Invalid
      | some (b, s) => bitLoop ext length flags k s (out.push (UInt8.ofNat b))
    else
      match decodeRef ext s with                                   -- :77-96
      | none => .err .Invalid
      | some (count, disp, s) =>
        if disp ≥ out.size then .err .Invalid                      -- :97-99
        else
          match copyLoop (out.size - disp - 1) count 0 out with    -- :100-104
          | .ok out => bitLoop ext length flags k s out
          | .err e => .err e
          | .panic => .panic

theorem next_length {s : Bytes} {b : Nat} {s' : Bytes} (h : next s = some (b, s')) :
    s'.length + 1 = s.length := by
  cases s with
  | nil => simp [next] at h
  | cons x xs => simp [next] at h; simp [h.2]

theorem decodeRef_length {ext : Bool} {s : Bytes} {c d : Nat} {r : Bytes}
    (h : decodeRef ext s = some (c, d, r)) : r.length ≤ s.length := by
  unfold decodeRef at h
  split at h
  · simp at h
  · rename_i b0 s0 h0
    have l0 := next_length h0
    split at h
    · simp at h
    · rename_i b1 s1 h1
      have l1 := next_length h1
      split at h
      · simp at h; rw [← h.2.2]; omega
      · split at h
        · simp at h; rw [← h.2.2]; omega
        · split at h
          · split at h
            · simp at h
            · rename_i b2 s2 h2
              have l2 := next_length h2
              simp at h; rw [← h.2.2]; omega
          · split at h
            · simp at h
            · rename_i b2 s2 h2
              have l2 := next_length h2
              split at h
              · simp at h
              · rename_i b3 s3 h3
                have l3 := next_length h3
                simp at h; rw [← h.2.2]; omega

theorem bitLoop_length (ext : Bool) (length flags : Nat) :
    ∀ (k : Nat) (s : Bytes) (out : BA) (s' : Bytes) (out' : BA),
      bitLoop ext length flags k s out = .ok (s', out') → s'.length ≤ s.length := by
  intro k
  induction k with
  | zero => intro s out s' out' h; simp [bitLoop] at h; simp [h.1]
  | succ k ih =>
    intro s out s' out' h
    unfold bitLoop at h
    split at h
    · simp at h; simp [h.1]
    · split at h
      · split at h
        · simp at h
        · rename_i b s0 h0
          have := ih _ _ _ _ h
          have := next_length h0
          omega
      · split at h
        · simp at h
        · rename_i c d s0 h0
          have := decodeRef_length h0
          split at h
          · simp at h
          · split at h
            · have := ih _ _ _ _ h; omega
            · simp at h
            · simp at h

/-- lz13.rs:67-106 outer `while out.len() < length`. -/
def outerLoop (ext : Bool) (length : Nat) (s : Bytes) (out : BA) : Res BA :=
  if out.size < length then
    match s with
    | [] => .err .Invalid                                          -- :68
    | f :: s' =>
      match h : bitLoop ext length f.toNat 8 s' out with
      | .ok (s'', out') => outerLoop ext length s'' out'
      | .err e => .err e
      | .panic => .panic
  else .ok out
termination_by s.length
decreasing_by
  have := bitLoop_length _ _ _ _ _ _ _ _ h
  simp; omega

/-- lz13.rs:44-108; `None` is `err Invalid`. -/
def decompressLz (bytes : Bytes) : Res BA :=
  match readU32 bytes with                                         -- :55
  | none => .err .Invalid
  | some (header, s) =>
    if header % 256 ≠ 0x10 ∧ header % 256 ≠ 0x11 then .err .Invalid  -- :56-60
    else
      let extended := header % 256 = 0x11
      let length := header / 256                                   -- :61
      if length = 0 ∧ extended then                                -- :62-64
        match readU32 s with
        | none => .err .Invalid
        | some (length, s) => outerLoop extended length s (Array.emptyWithCapacity (min length 0x1000000))  -- :66
      else outerLoop extended length s (Array.emptyWithCapacity (min length 0x1000000))                    -- :66

/-! ### The `decompress` wrappers -/

/-- lz10.rs:65-70 -/
def decompress10 (bytes : Bytes) : Res BA :=
  match decompressLz bytes with
  | .ok d => .ok d
  | .err _ => .err .Invalid
  | .panic => .panic

/-- lz13.rs:243-259 -/
def decompress13 (bytes : Bytes) : Res BA :=
  if bytes.length < 4 then .err .Invalid                           -- :244-246
  else
    match bytes with
    | [] => .panic                                                 -- bytes[0]
    | b0 :: _ =>
      if b0 = 0 then .ok (bytes.drop 4).toArray                    -- :247-250
      else
        let truncated := if b0 = 0x13 then bytes.drop 4 else bytes -- :252
        match decompressLz truncated with                          -- :254-257
        | .ok d => .ok d
        | .err _ => .err .Invalid
        | .panic => .panic

/-- compression_format.rs:6-32 -/
inductive Format | lz10 | lz13
  deriving DecidableEq, Repr

def Format.compress : Format → BA → Res BA
  | .lz10, x => compress10 x
  | .lz13, x => (compress13 x).1

/-- `str::ends_with` on UTF-8 bytes. -/
def endsWith (name suffix : Bytes) : Bool :=
  suffix.length ≤ name.length && name.drop (name.length - suffix.length) == suffix

/-- lz10.rs:12-14, lz13.rs:169-171, compression_format.rs:13-18 -/
def Format.isCompressedFilename : Format → Bytes → Bool
  | .lz10, n => endsWith n (bs ['.', 'c', 'm', 's']) || endsWith n (bs ['.', 'c', 'm', 'p'])
  | .lz13, n => endsWith n (bs ['.', 'l', 'z'])

def Format.decompress : Format → Bytes → Res BA
  | .lz10, s => decompress10 s
  | .lz13, s => decompress13 s

end Mila.Lz
