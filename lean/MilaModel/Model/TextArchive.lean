/-
Model of `src/text_archive.rs` (after the fix commits D15, D16), statement by statement.

* `entries : IndexMap<String, String>` is an association list whose order is the map's order
  (`indexmap`: `entry(k).or_default()` + assignment = replace in place or append; `shift_remove` =
  order-preserving removal; `insert` = same as the former).
* `str::replace(from, to)` is `strReplace`: leftmost, non-overlapping replacement.  Strings are
  UTF-8 bytes; both patterns used here are ASCII, and an ASCII byte never occurs inside a
  multi-byte UTF-8 sequence, so replacement on bytes is replacement on chars.
* The Shift-JIS codec is a parameter (`Codec`); UTF-16 is modelled exactly (`Model/Utf16`).
-/
import MilaModel.Basic
import MilaModel.Model.Codec
import MilaModel.Model.BinArchive
import MilaModel.Model.BinStreams
import MilaModel.Model.Utf16

namespace Mila

/-- `TextArchiveFormat` (`text_archive.rs:27-31`). -/
inductive TextFormat
  | shiftJIS | unicode
  deriving DecidableEq, Repr

/-- `TextArchive` (`text_archive.rs:33-39`). -/
structure TextArchive where
  title : Str
  entries : List (Str × Str)
  dirty : Bool
  format : TextFormat
  endian : Endian
  deriving Repr, DecidableEq

namespace TextArchive

/-! ### `IndexMap` operations -/

def imGet (m : List (Str × Str)) (k : Str) : Option Str :=
  (m.find? (fun p => p.1 = k)).map (·.2)

def imContains (m : List (Str × Str)) (k : Str) : Bool := m.any (fun p => p.1 = k)

/-- `*map.entry(k).or_default() = v` and `map.insert(k, v)`: an existing key keeps its place. -/
def imSet (m : List (Str × Str)) (k v : Str) : List (Str × Str) :=
  if imContains m k then m.map (fun p => if p.1 = k then (p.1, v) else p)
  else m ++ [(k, v)]

/-- `shift_remove`. -/
def imRemove (m : List (Str × Str)) (k : Str) : List (Str × Str) :=
  m.filter (fun p => ¬ p.1 = k)

/-! ### `str::replace` -/

/-- `s.replace(pat, rep)` for a non-empty pattern: scan left to right; at a position where `pat`
matches emit `rep` and continue **after** the match (`skip` counts the matched elements still to be
passed over), otherwise copy one element. -/
def strReplaceGo {α : Type} [DecidableEq α] (pat rep : List α) : Nat → List α → List α
  | _, [] => []
  | skip + 1, _ :: xs => strReplaceGo pat rep skip xs
  | 0, x :: xs =>
    if pat.isPrefixOf (x :: xs) then rep ++ strReplaceGo pat rep (pat.length - 1) xs
    else x :: strReplaceGo pat rep 0 xs

def strReplace {α : Type} [DecidableEq α] (pat rep s : List α) : List α := strReplaceGo pat rep 0 s

def backslash : UInt8 := 0x5C
def letterN : UInt8 := 0x6E
def newline : UInt8 := 0x0A

/-- `message.replace("\\n", "\n")` (`:138`). -/
def unescape (m : Str) : Str := strReplace [backslash, letterN] [newline] m

/-- `value.replace('\n', "\\n")` (`:134`). -/
def escape (m : Str) : Str := strReplace [newline] [backslash, letterN] m

/-! ### map API (`:42-54`, `:117-146`) -/

def new (format : TextFormat) (endian : Endian) : TextArchive :=
  ⟨[], [], false, format, endian⟩

def getTitle (t : TextArchive) : Str := t.title
def setTitle (t : TextArchive) (s : Str) : TextArchive := { t with title := s }
def hasMessage (t : TextArchive) (k : Str) : Bool := imContains t.entries k
def deleteMessage (t : TextArchive) (k : Str) : TextArchive :=
  { t with entries := imRemove t.entries k }
def getMessage (t : TextArchive) (k : Str) : Option Str := (imGet t.entries k).map escape
def setMessage (t : TextArchive) (k m : Str) : TextArchive :=
  { t with entries := imSet t.entries k (unescape m), dirty := true }
def isDirty (t : TextArchive) : Bool := t.dirty

/-! ### serialisation (`:8-25`, `:89-115`) -/

open BinArchive (padTo4)

/-- `write_shift_jis_string` (`:8-15`). -/
def writeSjisString (c : Codec) (bytes : Bytes) (s : Str) : Res Bytes :=
  match c.enc s with
  | none => .err .Encoding
  | some b => .ok (padTo4 (bytes ++ b ++ [0]))

/-- `write_utf_16_string` (`:17-25`). -/
def writeUtf16String (bytes : Bytes) (s : Str) : Res Bytes :=
  match Utf.toUtf16 s with
  | .ok u => .ok (padTo4 (bytes ++ u ++ [0, 0]))
  | .err e => .err e
  | .panic => .panic

def writeMessage (c : Codec) (f : TextFormat) (bytes : Bytes) (s : Str) : Res Bytes :=
  match f with
  | .shiftJIS => writeSjisString c bytes s
  | .unicode => writeUtf16String bytes s

/-- The loop `:97-103`: `(bytes, label_info)`. -/
def writeEntries (c : Codec) (f : TextFormat) :
    Bytes → List (Str × Nat) → List (Str × Str) → Res (Bytes × List (Str × Nat))
  | bytes, info, [] => .ok (bytes, info)
  | bytes, info, (k, v) :: rest =>
    match writeMessage c f bytes v with
    | .ok bytes' => writeEntries c f bytes' (info ++ [(k, bytes.length)]) rest
    | .err e => .err e
    | .panic => .panic

/-- The loop `:110-112`. -/
def writeLabels : BinArchive → List (Str × Nat) → Res BinArchive
  | a, [] => .ok a
  | a, (label, address) :: rest =>
    match a.writeLabel address label with
    | .ok a' => writeLabels a' rest
    | .err e => .err e
    | .panic => .panic

/-- `:90-103`: the data image and the label table. -/
def buildData (c : Codec) (t : TextArchive) : Res (Bytes × List (Str × Nat)) :=
  match t.format with
  | .unicode =>
    match writeSjisString c [] t.title with
    | .ok bytes => writeEntries c t.format bytes [] t.entries
    | .err e => .err e
    | .panic => .panic
  | .shiftJIS => writeEntries c t.format [] [] t.entries

/-- `:90-112`: the bin archive handed to `BinArchive::serialize`. -/
def buildArchive (c : Codec) (t : TextArchive) : Res BinArchive :=
  match buildData c t with
  | .ok (bytes, info) =>
    let archive := (BinArchive.new t.endian).allocateAtEnd bytes.length
    -- fix D16: `write_bytes(0, &[])` on an empty archive is skipped
    match (if bytes.isEmpty then .ok archive else archive.writeBytes 0 bytes) with
    | .ok archive => writeLabels archive info
    | .err e => .err e
    | .panic => .panic
  | .err e => .err e
  | .panic => .panic

/-- `TextArchive::serialize`. -/
def serialize (c : Codec) (t : TextArchive) : Res Bytes :=
  match buildArchive c t with
  | .ok a => a.serialize c
  | .err e => .err e
  | .panic => .panic

/-! ### parsing (`:56-87`; `encoded_strings.rs:73-89`) -/

/-- `BinArchiveReader::read_utf_16_string` (`encoded_strings.rs:82-88`). -/
def readUtf16Aligned (a : BinArchive) (r : Reader) : Res (Str × Reader) :=
  match Utf.utf16Raw (a.data.drop r.pos) with
  | none => .err .Unterminated
  | some raw =>
    match Utf.decodeUtf16 raw with
    | .ok s => .ok (s, ⟨Reader.alignUp (r.pos + raw.length + 2)⟩)
    | .err e => .err e
    | .panic => .panic

def readMessage (c : Codec) (f : TextFormat) (a : BinArchive) (r : Reader) : Res (Str × Reader) :=
  match f with
  | .shiftJIS => Reader.readSjisAligned c a r
  | .unicode => readUtf16Aligned a r

theorem alignUp_ge (p : Nat) : p ≤ Reader.alignUp p := by unfold Reader.alignUp; omega

/-- Every successful message read moves the cursor forward: the `while` loop of `from_archive`
terminates. -/
theorem readMessage_progress {c : Codec} {f : TextFormat} {a : BinArchive} {r r' : Reader} {m : Str}
    (h : readMessage c f a r = .ok (m, r')) : r.pos < r'.pos := by
  cases f with
  | shiftJIS =>
    simp only [readMessage, Reader.readSjisAligned] at h
    split at h
    · cases h
      have := alignUp_ge (r.pos + ‹Bytes›.length + 1)
      simp only at this ⊢; omega
    · cases h
  | unicode =>
    simp only [readMessage, readUtf16Aligned] at h
    split at h
    · cases h
    · split at h
      · cases h
        have := alignUp_ge (r.pos + ‹Bytes›.length + 2)
        simp only at this ⊢; omega
      · cases h
      · cases h

set_option linter.unusedVariables false in
/-- The `while reader.tell() < archive.size()` loop (`:76-85`); `hm` feeds the termination proof. -/
def fromLoop (c : Codec) (f : TextFormat) (a : BinArchive) (pos : Nat) (entries : List (Str × Str)) :
    Res (List (Str × Str)) :=
  if pos < a.size then
    match BinArchive.readLabels a pos with
    | .ok labels =>
      match hm : readMessage c f a ⟨pos⟩ with
      | .ok (message, r') =>
        fromLoop c f a r'.pos
          (match (labels.getD []).head? with
           | some k => imSet entries k message
           | none => entries)
      | .err e => .err e
      | .panic => .panic
    | .err e => .err e
    | .panic => .panic
  else .ok entries
termination_by a.size - pos
decreasing_by
  have := readMessage_progress hm
  simp only at this
  omega

/-- `TextArchive::from_archive` (`:66-87`). -/
def fromArchive (c : Codec) (a : BinArchive) (f : TextFormat) (e : Endian) : Res TextArchive :=
  let t := new f e
  match f with
  | .unicode =>
    match Reader.readSjisAligned c a ⟨0⟩ with
    | .ok (title, r) =>
      match fromLoop c f a r.pos [] with
      | .ok entries => .ok { t with title := title, entries := entries }
      | .err er => .err er
      | .panic => .panic
    | .err er => .err er
    | .panic => .panic
  | .shiftJIS =>
    match fromLoop c f a 0 [] with
    | .ok entries => .ok { t with entries := entries }
    | .err er => .err er
    | .panic => .panic

/-- `TextArchive::from_bytes` (`:56-64`). -/
def fromBytes (c : Codec) (raw : Bytes) (f : TextFormat) (e : Endian) : Res TextArchive :=
  match BinArchive.parse c e raw with
  | .ok a => fromArchive c a f e
  | .err er => .err er
  | .panic => .panic

end TextArchive
end Mila
