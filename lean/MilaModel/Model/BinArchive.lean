/-
Model of `src/bin_archive.rs` (after the fix commits D1–D6, D17), statement by statement.
`HashMap`s are `UMap`s (association lists, order = iteration order), `usize` values are `Nat`
(64-bit; the only additions that can leave the machine range for in-domain inputs are modelled
explicitly: `validateRange`).  Strings are UTF-8 byte strings, the Shift-JIS codec is a parameter.
-/
import MilaModel.Basic
import MilaModel.Model.UMap
import MilaModel.Model.Codec

namespace Mila

structure BinArchive where
  data : Bytes
  text : UMap Nat Str
  pointers : UMap Nat Nat
  labels : UMap Nat (List Str)
  cstrings : UMap Str (List Nat)
  endian : Endian
  deriving Repr

namespace BinArchive

def new (e : Endian) : BinArchive := ⟨[], [], [], [], [], e⟩

def size (a : BinArchive) : Nat := a.data.length

/-- `validate_address`. -/
def validateAddress (address size : Nat) (endIsValid : Bool) : Res Unit :=
  if (endIsValid && address > size) || (!endIsValid && address ≥ size) then .err .OutOfBounds
  else .ok ()

/-- `validate_range` (fix D5): `checked_add` failure is `OutOfBoundsAddress`. -/
def validateRange (address length size : Nat) : Res Nat :=
  match validateAddress address size false with
  | .ok () =>
    if address + length ≥ 2 ^ 64 then .err .OutOfBounds
    else match validateAddress (address + length) size true with
      | .ok () => .ok (address + length)
      | .err e => .err e
      | .panic => .panic
  | .err e => .err e
  | .panic => .panic

/-- `validate_alignment`. -/
def validateAlignment (value bytes : Nat) : Res Unit :=
  if value % bytes ≠ 0 then .err .Unaligned else .ok ()

/-- The two checks every fixed-width cell access performs (`address < size`, `address+w ≤ size`). -/
def validateCell (a : BinArchive) (address w : Nat) : Res Unit :=
  match validateAddress address a.size false with
  | .ok () => validateAddress (address + w) a.size true
  | r => r

/-! ### raw byte access -/

def slice (b : Bytes) (start len : Nat) : Bytes := (b.drop start).take len

/-- Overwrite `b[at .. at+v.length]` with `v` (caller guarantees the range is inside `b`). -/
def patch (b : Bytes) (at_ : Nat) (v : Bytes) : Bytes :=
  b.take at_ ++ v ++ b.drop (at_ + v.length)

def readBytes (a : BinArchive) (address amount : Nat) : Res Bytes :=
  match validateRange address amount a.size with
  | .ok _ => .ok (slice a.data address amount)
  | .err e => .err e
  | .panic => .panic

/-- Unsigned read of a `w`-byte value in the archive's endianness (`read_u8/u16/u32`, and the
bit pattern of `read_i*` / `read_f32`). -/
def readUInt (a : BinArchive) (address w : Nat) : Res Nat :=
  match validateCell a address w with
  | .ok () => .ok (a.endian.dec (slice a.data address w))
  | .err e => .err e
  | .panic => .panic

def readU8 (a : BinArchive) (address : Nat) : Res Nat :=
  match validateAddress address a.size false with
  | .ok () => .ok (a.data.getD address 0).toNat
  | .err e => .err e
  | .panic => .panic

def readU16 (a : BinArchive) (address : Nat) : Res Nat := readUInt a address 2
def readU32 (a : BinArchive) (address : Nat) : Res Nat := readUInt a address 4

def writeBytes (a : BinArchive) (address : Nat) (v : Bytes) : Res BinArchive :=
  match validateAddress address a.size false with
  | .ok () =>
    match validateAddress (address + v.length) a.size true with
    | .ok () => .ok { a with data := patch a.data address v }
    | .err e => .err e
    | .panic => .panic
  | .err e => .err e
  | .panic => .panic

/-- `write_u16/u32/i16/i32/f32` with the value given as its unsigned bit pattern. -/
def writeUInt (a : BinArchive) (address w value : Nat) : Res BinArchive :=
  match validateCell a address w with
  | .ok () => .ok { a with data := patch a.data address (a.endian.enc w value) }
  | .err e => .err e
  | .panic => .panic

def writeU8 (a : BinArchive) (address value : Nat) : Res BinArchive :=
  match validateAddress address a.size false with
  | .ok () => .ok { a with data := patch a.data address [UInt8.ofNat value] }
  | .err e => .err e
  | .panic => .panic

/-! ### annotations -/

def readString (a : BinArchive) (address : Nat) : Res (Option Str) :=
  match validateCell a address 4 with
  | .ok () => .ok (a.text.get address)
  | .err e => .err e
  | .panic => .panic

def readPointer (a : BinArchive) (address : Nat) : Res (Option Nat) :=
  match validateCell a address 4 with
  | .ok () => .ok (a.pointers.get address)
  | .err e => .err e
  | .panic => .panic

def readLabels (a : BinArchive) (address : Nat) : Res (Option (List Str)) :=
  match validateCell a address 4 with
  | .ok () => .ok (a.labels.get address)
  | .err e => .err e
  | .panic => .panic

/-- Bytes from `pos` up to (excluding) the first 0; `none` when the buffer ends first
(`read_shift_jis_impl` before decoding). -/
def cstrBytes : Bytes → Option Bytes
  | [] => none
  | b :: rest => if b = 0 then some [] else (cstrBytes rest).map (b :: ·)

def readCString (c : Codec) (a : BinArchive) (address : Nat) : Res (Option Str) :=
  match readPointer a address with
  | .ok (some ptr) =>
    match validateAddress ptr a.size false with
    | .ok () =>
      match cstrBytes (a.data.drop ptr) with
      | some b => .ok (some (c.dec b))
      | none => .err .Unterminated
    | .err e => .err e
    | .panic => .panic
  | .ok none => .ok none
  | .err e => .err e
  | .panic => .panic

/-- `read_c_string` before decoding: the raw bytes up to the terminator. -/
def readCStringRaw (a : BinArchive) (address : Nat) : Res (Option Bytes) :=
  match readPointer a address with
  | .ok (some ptr) =>
    match validateAddress ptr a.size false with
    | .ok () =>
      match cstrBytes (a.data.drop ptr) with
      | some b => .ok (some b)
      | none => .err .Unterminated
    | .err e => .err e
    | .panic => .panic
  | .ok none => .ok none
  | .err e => .err e
  | .panic => .panic

/-! ### signed views (`read_i8/i16/i32`, `write_i8/i16/i32`): two's complement of the same cell -/

/-- `x as iN` for an `N`-bit pattern `x`. -/
def toSigned (bits n : Nat) : Int :=
  if n < 2 ^ (bits - 1) then (n : Int) else (n : Int) - ((2 ^ bits : Nat) : Int)

/-- `v as uN` (bit pattern of a signed or unsigned value). -/
def ofSigned (bits : Nat) (v : Int) : Nat := (v % ((2 ^ bits : Nat) : Int)).toNat

def readI8 (a : BinArchive) (address : Nat) : Res Int := (readU8 a address).map (toSigned 8)
def readI16 (a : BinArchive) (address : Nat) : Res Int := (readU16 a address).map (toSigned 16)
def readI32 (a : BinArchive) (address : Nat) : Res Int := (readU32 a address).map (toSigned 32)
/-- `read_f32` as the `u32` bit pattern (M5). -/
def readF32Bits (a : BinArchive) (address : Nat) : Res Nat := readUInt a address 4

def writeI8 (a : BinArchive) (address : Nat) (v : Int) : Res BinArchive := writeU8 a address (ofSigned 8 v)
def writeI16 (a : BinArchive) (address : Nat) (v : Int) : Res BinArchive := writeUInt a address 2 (ofSigned 16 v)
def writeI32 (a : BinArchive) (address : Nat) (v : Int) : Res BinArchive := writeUInt a address 4 (ofSigned 32 v)
def writeU16 (a : BinArchive) (address value : Nat) : Res BinArchive := writeUInt a address 2 value
def writeU32 (a : BinArchive) (address value : Nat) : Res BinArchive := writeUInt a address 4 value
def writeF32Bits (a : BinArchive) (address bits : Nat) : Res BinArchive := writeUInt a address 4 bits

def deleteString (a : BinArchive) (address : Nat) : Res BinArchive :=
  match validateCell a address 4 with
  | .ok () => .ok { a with text := a.text.remove address }
  | .err e => .err e
  | .panic => .panic

def deletePointer (a : BinArchive) (address : Nat) : Res BinArchive :=
  match validateCell a address 4 with
  | .ok () => .ok { a with pointers := a.pointers.remove address }
  | .err e => .err e
  | .panic => .panic

def deleteLabels (a : BinArchive) (address : Nat) : Res BinArchive :=
  match validateCell a address 4 with
  | .ok () => .ok { a with labels := a.labels.remove address }
  | .err e => .err e
  | .panic => .panic

def deleteLabel (a : BinArchive) (address index : Nat) : Res BinArchive :=
  match validateCell a address 4 with
  | .ok () =>
    match a.labels.get address with
    | some bucket =>
      if index < bucket.length then
        .ok { a with labels := a.labels.insert address (bucket.eraseIdx index) }
      else .err .LabelIndex
    | none => .ok a
  | .err e => .err e
  | .panic => .panic

def writeCString (a : BinArchive) (address : Nat) (value : Str) : Res BinArchive :=
  match validateCell a address 4 with
  | .ok () =>
    let bucket := (a.cstrings.get value).getD []
    .ok { a with cstrings := a.cstrings.insert value (bucket ++ [address]) }
  | .err e => .err e
  | .panic => .panic

def writeString (a : BinArchive) (address : Nat) (value : Option Str) : Res BinArchive :=
  match value with
  | some v =>
    match validateCell a address 4 with
    | .ok () => .ok { a with text := a.text.insert address v }
    | .err e => .err e
    | .panic => .panic
  | none => deleteString a address

def writePointer (a : BinArchive) (address : Nat) (value : Option Nat) : Res BinArchive :=
  match value with
  | some v =>
    match validateCell a address 4 with
    | .ok () => .ok { a with pointers := a.pointers.insert address v }
    | .err e => .err e
    | .panic => .panic
  | none => deletePointer a address

def writeLabels (a : BinArchive) (address : Nat) (ls : List Str) : Res BinArchive :=
  match validateAddress address a.size true with
  | .ok () => .ok { a with labels := a.labels.insert address ls }
  | .err e => .err e
  | .panic => .panic

def writeLabel (a : BinArchive) (address : Nat) (label : Str) : Res BinArchive :=
  match validateAddress address a.size true with
  | .ok () =>
    match a.labels.get address with
    | some bucket => .ok { a with labels := a.labels.insert address (bucket ++ [label]) }
    | none => .ok { a with labels := a.labels.insert address [label] }
  | .err e => .err e
  | .panic => .panic

/-! ### relocation -/

/-- `adjust_pointer`. -/
def adjustPointer (pointer address count : Nat) (subtract : Bool) : Nat :=
  if pointer ≥ address then (if subtract then pointer - count else pointer + count) else pointer

/-- The label / pointer-target rule (`>` or, with `ge`, `≥`). -/
def adjustGe (pointer address count : Nat) (subtract ge : Bool) : Nat :=
  if pointer > address || (pointer ≥ address && ge) then
    (if subtract then pointer - count else pointer + count)
  else pointer

def inRange (address count x : Nat) : Bool := address ≤ x && x < address + count

def filterTextOrLabels {ν : Type} (m : UMap Nat ν) (address count : Nat) : UMap Nat ν :=
  UMap.collect (m.filter (fun p => !inRange address count p.1))

def filterPointers (m : UMap Nat Nat) (address count : Nat) : UMap Nat Nat :=
  UMap.collect (m.filter (fun p => !(inRange address count p.1 || inRange address count p.2)))

def adjustText {ν : Type} (m : UMap Nat ν) (address count : Nat) (subtract : Bool) : UMap Nat ν :=
  UMap.collect (m.map (fun p => (adjustPointer p.1 address count subtract, p.2)))

def adjustLabels {ν : Type} (m : UMap Nat ν) (address count : Nat) (subtract ge : Bool) : UMap Nat ν :=
  UMap.collect (m.map (fun p => (adjustGe p.1 address count subtract ge, p.2)))

def adjustPointers (m : UMap Nat Nat) (address count : Nat) (subtract ge : Bool) : UMap Nat Nat :=
  UMap.collect (m.map (fun p =>
    (adjustPointer p.1 address count subtract, adjustGe p.2 address count subtract ge)))

/-- `adjust_cstrings` (fix D3). -/
def adjustCStrings (m : UMap Str (List Nat)) (address count : Nat) (subtract : Bool) :
    UMap Str (List Nat) :=
  UMap.collect (m.map (fun p => (p.1, p.2.map (fun x => adjustPointer x address count subtract))))

/-- `filter_cstrings` (fix D3): keep the addresses satisfying `keep`, drop emptied buckets. -/
def filterCStrings (m : UMap Str (List Nat)) (keep : Nat → Bool) : UMap Str (List Nat) :=
  UMap.collect ((m.map (fun p => (p.1, p.2.filter keep))).filter (fun p => !p.2.isEmpty))

def allocateAtEnd (a : BinArchive) (amount : Nat) : BinArchive :=
  { a with data := a.data ++ List.replicate amount 0 }

def allocate (a : BinArchive) (address amount : Nat) (ge : Bool) : Res BinArchive :=
  match validateAddress address a.size true with
  | .ok () =>
    match validateAlignment address 4 with
    | .ok () =>
      match validateAlignment amount 4 with
      | .ok () =>
        .ok { a with
          data := a.data.take address ++ List.replicate amount 0 ++ a.data.drop address
          text := adjustText a.text address amount false
          labels := adjustLabels a.labels address amount false ge
          pointers := adjustPointers a.pointers address amount false ge
          cstrings := adjustCStrings a.cstrings address amount false }
      | .err e => .err e
      | .panic => .panic
    | .err e => .err e
    | .panic => .panic
  | .err e => .err e
  | .panic => .panic

def deallocate (a : BinArchive) (address amount : Nat) (ge : Bool) : Res BinArchive :=
  match validateRange address amount a.size with
  | .ok _ =>
    match validateAlignment address 4 with
    | .ok () =>
      match validateAlignment amount 4 with
      | .ok () =>
        .ok { a with
          data := a.data.take address ++ a.data.drop (address + amount)
          text := adjustText (filterTextOrLabels a.text address amount) address amount true
          labels := adjustLabels (filterTextOrLabels a.labels address amount) address amount true ge
          pointers := adjustPointers (filterPointers a.pointers address amount) address amount true ge
          cstrings := adjustCStrings
            (filterCStrings a.cstrings (fun x => !inRange address amount x)) address amount true }
      | .err e => .err e
      | .panic => .panic
    | .err e => .err e
    | .panic => .panic
  | .err e => .err e
  | .panic => .panic

/-- `truncate` (fix D4): every annotation at or beyond the cut is removed. -/
def truncate (a : BinArchive) (address : Nat) : BinArchive :=
  if address ≥ a.data.length then a
  else { a with
    data := a.data.take address
    text := a.text.filter (fun p => p.1 < address)
    labels := a.labels.filter (fun p => p.1 < address)
    pointers := a.pointers.filter (fun p => p.1 < address)
    cstrings := filterCStrings a.cstrings (fun x => x < address) }

/-- `find_label_address` (fix D17): the lowest address whose bucket contains the label. -/
def findLabelAddress (a : BinArchive) (target : Str) : Option Nat :=
  ((a.labels.filter (fun p => p.2.contains target)).map (·.1)).min?

/-- `all_labels`: `(address, label)` pairs ordered by address (stable). -/
def allLabels (a : BinArchive) : List (Nat × Str) :=
  (a.labels.flatMap (fun p => p.2.map (fun l => (p.1, l)))).mergeSort (fun x y => x.1 ≤ y.1)

/-- Lexicographic `≤` on byte strings (Rust `Vec<u8>` / `String` `cmp`). -/
def bytesLe : Bytes → Bytes → Bool
  | [], _ => true
  | _ :: _, [] => false
  | x :: xs, y :: ys => if x < y then true else if y < x then false else bytesLe xs ys

/-- `pointer_destinations` (a `HashSet`: order immaterial, duplicates merged). -/
def pointerDestinations (a : BinArchive) : List Nat := (a.pointers.map (·.2)).eraseDups

/-- `get_labels`: all `(address, label)` pairs sorted lexicographically (address, then string bytes). -/
def getLabels (a : BinArchive) : List (Nat × Str) :=
  (a.labels.flatMap (fun p => p.2.map (fun l => (p.1, l)))).mergeSort
    (fun x y => x.1 < y.1 || (x.1 == y.1 && bytesLe x.2 y.2))

/-! ### serialisation -/

def bucketCmpLe : List Str → List Str → Bool
  | [], _ => true
  | _ :: _, [] => false
  | x :: xs, y :: ys => if x = y then bucketCmpLe xs ys else bytesLe x y

/-- State of `add_text`: the raw text so far and the offset of every string already stored. -/
structure TextPool where
  raw : Bytes
  offsets : List (Str × Nat)

/-- `add_text`. -/
def addText (c : Codec) (tp : TextPool) (s : Str) : Res (TextPool × Nat) :=
  match UMap.get tp.offsets s with
  | some off => .ok (tp, off)
  | none =>
    match c.enc s with
    | none => .err .Encoding
    | some b => .ok (⟨tp.raw ++ b ++ [0], tp.offsets ++ [(s, tp.raw.length)]⟩, tp.raw.length)

/-- `cursor.seek(at); cursor.write_u32(v as u32)` on a `Cursor<&mut [u8]>`: fails (`WriteZero`)
unless four bytes fit. -/
def patchWord (e : Endian) (data : Bytes) (at_ v : Nat) : Res Bytes :=
  if at_ + 4 ≤ data.length then .ok (patch data at_ (e.enc 4 (v % 2 ^ 32))) else .err .Io

def padTo4 (b : Bytes) : Bytes := b ++ List.replicate ((4 - b.length % 4) % 4) 0

/-- Insert `addr` into the `IndexMap<offset, Vec<addr>>` of string pointers. -/
def pushGroup (groups : List (Nat × List Nat)) (off addr : Nat) : List (Nat × List Nat) :=
  if groups.any (fun g => g.1 = off) then
    groups.map (fun g => if g.1 = off then (g.1, g.2 ++ [addr]) else g)
  else groups ++ [(off, [addr])]

def sortNat (l : List Nat) : List Nat := l.mergeSort (fun x y => x ≤ y)

def u32s (e : Endian) (l : List Nat) : Bytes := l.flatMap (fun v => e.enc 4 (v % 2 ^ 32))

/-- Sort key of a c-string bucket: `SHIFT_JIS.encode(text)` (`:327-333`; the lossy encoding of an
unencodable string is not modelled — `add_text` rejects such an archive whatever the order). -/
def cstrKey (c : Codec) (p : Str × List Nat) : Bytes := (c.enc p.1).getD []

def cstrLe (c : Codec) (x y : Str × List Nat) : Bool := bytesLe (cstrKey c x) (cstrKey c y)

/-- `a.0.cmp(&b.0)` on `(address, _)` pairs. -/
def bySource {β : Type} (x y : Nat × β) : Bool := decide (x.1 ≤ y.1)

/-- Label-bucket order (`:352-356`): big-endian by name list then address (fix D2), little-endian
by address. -/
def labelLe (e : Endian) (x y : Nat × List Str) : Bool :=
  match e with
  | .big => if x.2 = y.2 then decide (x.1 ≤ y.1) else bucketCmpLe x.2 y.2
  | .little => decide (x.1 ≤ y.1)

/-- Body of the c-string loop (`:334-340`): state = pool × pointers pushed so far. -/
def cstringStep (c : Codec) (dataLen : Nat) (st : TextPool × List (Nat × Nat))
    (p : Str × List Nat) : Res (TextPool × List (Nat × Nat)) :=
  match addText c st.1 p.1 with
  | .ok (tp, off) => .ok (tp, st.2 ++ p.2.map (fun addr => (addr, dataLen + off)))
  | .err e => .err e
  | .panic => .panic

/-- Body of the label loop (`:358-364`), per `(address, label)`: state = pool × `raw_labels`. -/
def labelStep (c : Codec) (st : TextPool × List Nat) (al : Nat × Str) : Res (TextPool × List Nat) :=
  match addText c st.1 al.2 with
  | .ok (tp, off) => .ok (tp, st.2 ++ [al.1, off])
  | .err e => .err e
  | .panic => .panic

/-- Body of the string loop (`:372-385`): state = pool × data × `ptr_data_pairs`. -/
def textStep (c : Codec) (e : Endian) (textStart : Nat)
    (st : TextPool × Bytes × List (Nat × List Nat)) (p : Nat × Str) :
    Res (TextPool × Bytes × List (Nat × List Nat)) :=
  match addText c st.1 p.2 with
  | .ok (tp, off) =>
    match patchWord e st.2.1 p.1 (textStart + off) with
    | .ok d => .ok (tp, d, pushGroup st.2.2 off p.1)
    | .err er => .err er
    | .panic => .panic
  | .err er => .err er
  | .panic => .panic

/-- The last part of `serialize` (`:386-416`): grouped string pointers, header, concatenation.
`dataLen` is `self.data.len()`, `data` the patched copy. -/
def assemble (e : Endian) (dataLen : Nat) (data rawCStrings : Bytes) (rawPointers : List Nat)
    (groups : List (Nat × List Nat)) (rawLabels : List Nat) (rawText : Bytes) : Bytes :=
  let rawPointers := rawPointers ++ groups.flatMap (fun g => sortNat (g.2.map (· % 2 ^ 32)))
  let fileSize := dataLen + rawCStrings.length + rawPointers.length * 4
    + rawLabels.length * 4 + rawText.length + 0x20
  let header := u32s e [fileSize, (data.length % 2 ^ 32 + rawCStrings.length % 2 ^ 32),
    rawPointers.length, rawLabels.length / 2] ++ List.replicate 16 0
  header ++ data ++ rawCStrings ++ u32s e rawPointers ++ u32s e rawLabels ++ rawText

/-- `serialize` from the pointer sort on (`:345-416`): `rawCStrings` is the padded pool,
`pointers` the internal pointers followed by the c-string pointers. -/
def serializeTail (c : Codec) (e : Endian) (data0 rawCStrings : Bytes) (pointers : List (Nat × Nat))
    (labels : UMap Nat (List Str)) (text : UMap Nat Str) : Res Bytes :=
  -- internal pointers (plus c-string pointers), ascending by source
  match (pointers.mergeSort bySource).foldlM (fun d p => patchWord e d p.1 p.2) data0 with
  | .ok data =>
    let rawPointers := (pointers.mergeSort bySource).map (·.1)
    -- labels
    match ((labels.mergeSort (labelLe e)).flatMap (fun p => p.2.map (fun l => (p.1, l)))).foldlM
        (labelStep c) ((⟨[], []⟩ : TextPool), ([] : List Nat)) with
    | .ok (tp, rawLabels) =>
      -- strings
      let textStart := data0.length + rawCStrings.length
        + (rawPointers.length + text.length + rawLabels.length) * 4
      match (text.mergeSort bySource).foldlM (textStep c e textStart)
          (tp, data, ([] : List (Nat × List Nat))) with
      | .ok (tp, data, groups) =>
        .ok (assemble e data0.length data rawCStrings rawPointers groups rawLabels tp.raw)
      | .err er => .err er
      | .panic => .panic
    | .err er => .err er
    | .panic => .panic
  | .err er => .err er
  | .panic => .panic

/-- `serialize` (after fixes D1, D2). -/
def serialize (c : Codec) (a : BinArchive) : Res Bytes :=
  -- c-string pool (`:325-343`)
  match (a.cstrings.mergeSort (cstrLe c)).foldlM (cstringStep c a.data.length)
      ((⟨[], []⟩ : TextPool), ([] : List (Nat × Nat))) with
  | .ok (pool, cptrs) =>
    serializeTail c a.endian a.data (padTo4 pool.raw) (a.pointers ++ cptrs) a.labels a.text
  | .err er => .err er
  | .panic => .panic

/-! ### parsing -/

def u32At (e : Endian) (b : Bytes) (pos : Nat) : Option Nat :=
  if pos + 4 ≤ b.length then some (e.dec (slice b pos 4)) else none

/-- `cursor.seek(pos); cursor.read_shift_jis_string()`. -/
def sjisAt (c : Codec) (b : Bytes) (pos : Nat) : Res Str :=
  match cstrBytes (b.drop pos) with
  | some s => .ok (c.dec s)
  | none => .err .Unterminated

/-- One pointer-table entry of `from_bytes` (`:271-281`), after the entry has been read. -/
def parsePointerAt (c : Codec) (bytes : Bytes) (dataSize : Nat) (a : BinArchive) (ptrAddr : Nat) :
    Res BinArchive :=
  match readU32 a ptrAddr with
  | .ok v =>
    if v > dataSize then
      match sjisAt c bytes (v + 0x20) with
      | .ok s => writeString a ptrAddr (some s)
      | .err er => .err er
      | .panic => .panic
    else writePointer a ptrAddr (some v)
  | .err er => .err er
  | .panic => .panic

/-- One pointer-table entry of `from_bytes`. -/
def parsePointer (c : Codec) (e : Endian) (bytes : Bytes) (dataSize : Nat)
    (a : BinArchive) (pos : Nat) : Res BinArchive :=
  match u32At e bytes pos with
  | none => .err .Eof
  | some ptrAddr => parsePointerAt c bytes dataSize a ptrAddr

/-- One label-table entry of `from_bytes` (`:285-292`), after the entry has been read. -/
def parseLabelAt (c : Codec) (bytes : Bytes) (textStart : Nat) (a : BinArchive)
    (address offset : Nat) : Res BinArchive :=
  match sjisAt c bytes (textStart + offset + 0x20) with
  | .ok s => writeLabel a address s
  | .err er => .err er
  | .panic => .panic

def parseLabel (c : Codec) (e : Endian) (bytes : Bytes) (textStart : Nat)
    (a : BinArchive) (pos : Nat) : Res BinArchive :=
  match u32At e bytes pos, u32At e bytes (pos + 4) with
  | some address, some offset => parseLabelAt c bytes textStart a address offset
  | _, _ => .err .Eof

/-- `from_bytes` (after fix D6: the header sum is computed without 32-bit overflow). -/
def parse (c : Codec) (e : Endian) (bytes : Bytes) : Res BinArchive :=
  if bytes.length < 0x20 then .err .TooSmall else
  let dataSize := e.dec (slice bytes 4 4)
  let pointerCount := e.dec (slice bytes 8 4)
  let labelCount := e.dec (slice bytes 12 4)
  let textStart := dataSize + pointerCount * 4 + labelCount * 8
  if textStart + 0x20 > bytes.length then .err .TooSmall else
  let a0 : BinArchive := { new e with data := slice bytes 0x20 dataSize }
  let ptrBase := 0x20 + dataSize
  match (List.range pointerCount).foldlM (init := a0)
      (fun a i => parsePointer c e bytes dataSize a (ptrBase + 4 * i)) with
  | .ok a1 =>
    let lblBase := ptrBase + 4 * pointerCount
    (List.range labelCount).foldlM (init := a1)
      (fun a i => parseLabel c e bytes textStart a (lblBase + 8 * i))
  | .err er => .err er
  | .panic => .panic

end BinArchive
end Mila
