/-
The operation machine of the `binops` correspondence stream (C03, C04): one `BinArchive`, one
reader cursor, one writer cursor; an `Op` is one public call of `src/bin_archive.rs` /
`src/bin_streams.rs`.  `Sys.step` is what the driver runs and what the history theorems are about.
On `Err` the Rust methods return before mutating `self`, so the state is returned unchanged — with
the one exception the Rust has: `read_shift_jis_string` on a `BinArchiveReader` leaves the cursor
after the bytes it could read (it is not a cell access; since fix D19 `read_bytes` / `write_bytes`
of the streams fail without side effects).
-/
import MilaModel.Model.BinStreams
import MilaModel.Spec.BinOp

namespace Mila
open BinArchive

namespace BinArchive

/-- `read_<ty>(address)`; values of signed types are signed, `f32` is its bit pattern. -/
def readTy (a : BinArchive) (t : Ty) (address : Nat) : Res Int :=
  match t with
  | .u8 => (readU8 a address).map Int.ofNat
  | .u16 => (readU16 a address).map Int.ofNat
  | .u32 => (readU32 a address).map Int.ofNat
  | .f32 => (readF32Bits a address).map Int.ofNat
  | .i8 => readI8 a address
  | .i16 => readI16 a address
  | .i32 => readI32 a address

/-- `write_<ty>(address, v)`; `v` is reduced to the bit pattern of the type (`v as uN`). -/
def writeTy (a : BinArchive) (t : Ty) (address : Nat) (v : Int) : Res BinArchive :=
  match t with
  | .u8 => writeU8 a address (ofSigned 8 v)
  | .i8 => writeI8 a address v
  | .u16 => writeU16 a address (ofSigned 16 v)
  | .i16 => writeI16 a address v
  | .u32 => writeU32 a address (ofSigned 32 v)
  | .i32 => writeI32 a address v
  | .f32 => writeF32Bits a address (ofSigned 32 v)

end BinArchive

namespace Reader

def readTy (a : BinArchive) (r : Reader) (t : Ty) : Res (Int × Reader) :=
  match t with
  | .u8 => (readU8 a r).map (fun p => (Int.ofNat p.1, p.2))
  | .u16 => (readU16 a r).map (fun p => (Int.ofNat p.1, p.2))
  | .u32 => (readU32 a r).map (fun p => (Int.ofNat p.1, p.2))
  | .f32 => (readF32Bits a r).map (fun p => (Int.ofNat p.1, p.2))
  | .i8 => readI8 a r
  | .i16 => readI16 a r
  | .i32 => readI32 a r

/-- `read_c_string` of the reader, before decoding. -/
def readCStringRaw (a : BinArchive) (r : Reader) := r.step 4 (BinArchive.readCStringRaw a)

end Reader

namespace Writer

def writeTy (w : Writer) (t : Ty) (v : Int) : Res Writer :=
  match t with
  | .u8 => w.writeU8 (ofSigned 8 v)
  | .i8 => w.writeI8 v
  | .u16 => w.writeU16 (ofSigned 16 v)
  | .i16 => w.writeI16 v
  | .u32 => w.writeU32 (ofSigned 32 v)
  | .i32 => w.writeI32 v
  | .f32 => w.writeF32Bits (ofSigned 32 v)

end Writer

/-- What a call returns. -/
inductive Out
  | unit
  | int (v : Int)
  | nat (n : Nat)
  | two (a b : Nat)
  | bytes (b : Bytes)
  | optStr (s : Option Str)
  | optRaw (s : Option Bytes)     -- undecoded c-string
  | raw (s : Bytes)               -- undecoded Shift-JIS string
  | optNat (n : Option Nat)
  | optLabels (l : Option (List Str))
  | nats (l : List Nat)
  | pairs (l : List (Nat × Str))
  | skipOverflow                  -- `skip` past 2^64: outside the statement, not executed
  deriving Repr, DecidableEq

/-- Archive plus the two stream cursors. -/
structure Sys where
  arch : BinArchive
  rpos : Nat
  wpos : Nat
  deriving Repr

namespace Sys

def init (e : Endian) : Sys := ⟨BinArchive.new e, 0, 0⟩

/-- positional mutation: new archive on `ok`, unchanged on `err`. -/
def upd (s : Sys) (r : Res BinArchive) : Sys × Res Out :=
  match r with
  | .ok a => ({ s with arch := a }, .ok .unit)
  | .err e => (s, .err e)
  | .panic => (s, .panic)

/-- positional query. -/
def qry {α : Type} (s : Sys) (r : Res α) (f : α → Out) : Sys × Res Out := (s, r.map f)

/-- reader call: cursor moves on `ok` only. -/
def rd {α : Type} (s : Sys) (r : Res (α × Reader)) (f : α → Out) : Sys × Res Out :=
  match r with
  | .ok (v, r') => ({ s with rpos := r'.pos }, .ok (f v))
  | .err e => (s, .err e)
  | .panic => (s, .panic)

/-- writer call: archive and cursor change on `ok` only. -/
def wr (s : Sys) (r : Res Writer) : Sys × Res Out :=
  match r with
  | .ok w => ({ s with arch := w.archive, wpos := w.pos }, .ok .unit)
  | .err e => (s, .err e)
  | .panic => (s, .panic)

def writer (s : Sys) : Writer := ⟨s.arch, s.wpos⟩
def reader (s : Sys) : Reader := ⟨s.rpos⟩

def step (s : Sys) : Op → Sys × Res Out
  | .allocEnd n => ({ s with arch := s.arch.allocateAtEnd n }, .ok .unit)
  | .allocate addr n ge => s.upd (s.arch.allocate addr n ge)
  | .deallocate addr n ge => s.upd (s.arch.deallocate addr n ge)
  | .truncate addr => ({ s with arch := s.arch.truncate addr }, .ok .unit)
  | .read t addr => s.qry (s.arch.readTy t addr) .int
  | .write t addr v => s.upd (s.arch.writeTy t addr v)
  | .readBytes addr n => s.qry (s.arch.readBytes addr n) .bytes
  | .writeBytes addr v => s.upd (s.arch.writeBytes addr v)
  | .readStr addr => s.qry (s.arch.readString addr) .optStr
  | .readPtr addr => s.qry (s.arch.readPointer addr) .optNat
  | .readLabels addr => s.qry (s.arch.readLabels addr) .optLabels
  | .readCStr addr => s.qry (s.arch.readCStringRaw addr) .optRaw
  | .writeStr addr v => s.upd (s.arch.writeString addr v)
  | .writePtr addr v => s.upd (s.arch.writePointer addr v)
  | .writeCStr addr v => s.upd (s.arch.writeCString addr v)
  | .writeLabel addr v => s.upd (s.arch.writeLabel addr v)
  | .writeLabels addr v => s.upd (s.arch.writeLabels addr v)
  | .delStr addr => s.upd (s.arch.deleteString addr)
  | .delPtr addr => s.upd (s.arch.deletePointer addr)
  | .delLabels addr => s.upd (s.arch.deleteLabels addr)
  | .delLabel addr i => s.upd (s.arch.deleteLabel addr i)
  | .find l => (s, .ok (.optNat (s.arch.findLabelAddress l)))
  | .ptrDests => (s, .ok (.nats s.arch.pointerDestinations))
  | .getLabels => (s, .ok (.pairs s.arch.getLabels))
  | .rSeek p => ({ s with rpos := p }, .ok .unit)
  | .rSkip n => if s.rpos + n < 2 ^ 64 then ({ s with rpos := s.rpos + n }, .ok .unit) else (s, .ok .skipOverflow)
  | .rTell => (s, .ok (.nat s.rpos))
  | .rRead t => s.rd (s.reader.readTy s.arch t) .int
  | .rBytes n =>
    let (r, rd') := s.reader.readBytesFull s.arch n
    ({ s with rpos := rd'.pos }, r.map .bytes)
  | .rStr => s.rd (s.reader.readString s.arch) .optStr
  | .rPtr => s.rd (s.reader.readPointer s.arch) .optNat
  | .rCStr => s.rd (s.reader.readCStringRaw s.arch) .optRaw
  | .rLabel i => (s, (s.reader.readLabel s.arch i).map .optStr)
  | .rLabels => (s, (s.reader.readLabels s.arch).map .optLabels)
  | .rSjis =>
    let (r, rd') := s.reader.readSjisRawFull s.arch
    ({ s with rpos := rd'.pos }, r.map .raw)
  | .wSeek p => ({ s with wpos := p }, .ok .unit)
  | .wSkip n => if s.wpos + n < 2 ^ 64 then ({ s with wpos := s.wpos + n }, .ok .unit) else (s, .ok .skipOverflow)
  | .wTell => (s, .ok (.nat s.wpos))
  | .wSize => (s, .ok (.two s.arch.size s.arch.size))
  | .wWrite t v => s.wr (s.writer.writeTy t v)
  | .wBytes v =>
    let (w, r) := s.writer.writeBytes v
    ({ s with arch := w.archive, wpos := w.pos }, r.map (fun _ => .unit))
  | .wStr v => s.wr (s.writer.writeString v)
  | .wPtr v => s.wr (s.writer.writePointer v)
  | .wCStr v => s.wr (s.writer.writeCString v)
  | .wLabel v => s.wr (s.writer.writeLabel v)
  | .wAlloc n ge => s.wr (s.writer.allocate n ge)
  | .wAllocEnd n => ({ s with arch := s.arch.allocateAtEnd n }, .ok .unit)

/-- Run a history; the outcomes are collected in order. -/
def run (s : Sys) : List Op → Sys × List (Res Out)
  | [] => (s, [])
  | op :: ops =>
    let (s', r) := s.step op
    let (s'', rs) := s'.run ops
    (s'', r :: rs)

def final (s : Sys) (ops : List Op) : Sys := (s.run ops).1

end Sys
end Mila
