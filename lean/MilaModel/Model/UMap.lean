/-
Unordered maps (M3): a Rust `HashMap<K,V>` is an association list whose *order stands for the
hash-map iteration order*.  Theorems about outputs quantify over `List.Perm`-equivalent
representations; key uniqueness (`Nodup` of keys) is a separate invariant.
-/
import MilaModel.Basic

namespace Mila

abbrev UMap (κ ν : Type) := List (κ × ν)

namespace UMap
variable {κ ν : Type} [DecidableEq κ]

def get (m : UMap κ ν) (k : κ) : Option ν := (m.find? (fun p => p.1 = k)).map (·.2)

def contains (m : UMap κ ν) (k : κ) : Bool := m.any (fun p => p.1 = k)

/-- `HashMap::insert`: replace the value of an existing key, else add the entry. -/
def insert (m : UMap κ ν) (k : κ) (v : ν) : UMap κ ν :=
  if m.any (fun p => p.1 = k) then m.map (fun p => if p.1 = k then (k, v) else p)
  else m ++ [(k, v)]

/-- `HashMap::remove`. -/
def remove (m : UMap κ ν) (k : κ) : UMap κ ν := m.filter (fun p => ¬ p.1 = k)

/-- `iter().…collect::<HashMap>()`: later entries with an equal key overwrite earlier ones. -/
def collect (ps : List (κ × ν)) : UMap κ ν := ps.foldl (fun m p => insert m p.1 p.2) []

def keys (m : UMap κ ν) : List κ := m.map (·.1)

end UMap
end Mila
