/-
Model of `src/arc.rs` (3DS arc extraction; after the fix commit D9), statement by statement, on
top of the bin-archive model (`BinArchive.parse`, `findLabelAddress`, `readU32`) and the stream
reader (`Reader`).  The only arithmetic of `arc.rs` itself is the addition of the header padding
to a record's offset: after fix D9 it is a `usize` addition of a `u32` value and `0x60`, written
here with the profile-aware `add64` (it cannot overflow, which the theorems use).
`HashMap<String, Vec<u8>>` is a `UMap` (insertion order stands for the iteration order; the
harness prints the map sorted by name).
-/
import MilaModel.Model.BinArchive
import MilaModel.Model.BinStreams

namespace Mila.Arc

/-- `"Count"` / `"Info"` as UTF-8 bytes (kernel-reducible literals). -/
def COUNT : Str := bs ['C', 'o', 'u', 'n', 't']
def INFO : Str := bs ['I', 'n', 'f', 'o']

/-- `struct ArcEntry`, arc.rs:8-14. -/
structure ArcEntry where
  name : Str
  index : Nat
  size : Nat
  address : Nat
  deriving Repr, DecidableEq

/-- One iteration of the metadata loop, arc.rs:31-41. -/
def readRecord (p : Profile) (a : BinArchive) (headerPadding : Nat) (r : Reader) :
    Res (ArcEntry × Reader) :=
  match Reader.readString a r with                         -- :32 reader.read_string()?
  | .ok (none, _) => .err .MissingName                     --     .ok_or(ArcError::MissingName)?
  | .ok (some name, r1) =>
    match Reader.readU32 a r1 with                         -- :33 index
    | .ok (index, r2) =>
      match Reader.readU32 a r2 with                       -- :34 size
      | .ok (size, r3) =>
        match Reader.readU32 a r3 with                     -- :35 reader.read_u32()? as usize
        | .ok (off, r4) =>
          match add64 p off headerPadding with             --     + header_padding   (usize, fix D9)
          | .ok address => .ok (⟨name, index, size, address⟩, r4)
          | .err e => .err e
          | .panic => .panic
        | .err e => .err e
        | .panic => .panic
      | .err e => .err e
      | .panic => .panic
    | .err e => .err e
    | .panic => .panic
  | .err e => .err e
  | .panic => .panic

/-- `for _ in 0..count { … entries.push(…) }`, arc.rs:31-42. -/
def readRecords (p : Profile) (a : BinArchive) (headerPadding : Nat) :
    Nat → Reader → Res (List ArcEntry × Reader)
  | 0, r => .ok ([], r)
  | n + 1, r =>
    match readRecord p a headerPadding r with
    | .ok (e, r') =>
      match readRecords p a headerPadding n r' with
      | .ok (es, r'') => .ok (e :: es, r'')
      | .err er => .err er
      | .panic => .panic
    | .err er => .err er
    | .panic => .panic

/-- `BinArchiveReader::read_bytes` **as of /repo commit a86b3af** (bin_streams.rs:69-76): an empty
read succeeds wherever the cursor is; otherwise one positional `BinArchive::read_bytes`
(`validate_range`), then the cursor advances.
LOCAL COPY kept from before the shared `Reader.readBytes` (Model/BinStreams.lean) was updated to the
same semantics (fix D19); the two definitions now coincide, the C16 lemmas are stated on this one. -/
def readerReadBytes (a : BinArchive) (r : Reader) (count : Nat) : Res (Bytes × Reader) :=
  if count = 0 then .ok ([], r)                                   -- :70-72
  else match a.readBytes r.pos count with                         -- :73
    | .ok v => .ok (v, ⟨r.pos + count⟩)                           -- :74
    | .err e => .err e
    | .panic => .panic

/-- The file loop, arc.rs:45-50: `reader.seek(address); reader.read_bytes(size)`; `files.insert`. -/
def extract (a : BinArchive) : List ArcEntry → UMap Str Bytes → Res (UMap Str Bytes)
  | [], files => .ok files
  | e :: es, files =>
    match readerReadBytes a ⟨e.address⟩ e.size with
    | .ok (buffer, _) => extract a es (UMap.insert files e.name buffer)
    | .err er => .err er
    | .panic => .panic

/-- `arc::from_bytes` after the bin archive has been parsed, arc.rs:19-51. -/
def fromArchive (p : Profile) (a : BinArchive) : Res (UMap Str Bytes) :=
  match a.findLabelAddress COUNT with                       -- :19-21
  | none => .err .NoCount
  | some countAddress =>
    match a.findLabelAddress INFO with                      -- :22
    | none => .err .NoInfo
    | some infoAddress =>
      match a.readU32 0 with                                -- :23
      | .ok w0 =>
        let headerPadding := if w0 = 0 then 0x60 else 0
        match Reader.readU32 a ⟨countAddress⟩ with          -- :27-28
        | .ok (count, r) =>
          let r := r.seek infoAddress                       -- :29
          match readRecords p a headerPadding count r with  -- :30-42
          | .ok (entries, _) => extract a entries []        -- :45-51
          | .err e => .err e
          | .panic => .panic
        | .err e => .err e
        | .panic => .panic
      | .err e => .err e
      | .panic => .panic

/-- `arc::from_bytes`, arc.rs:16-51 (`BinArchive::from_bytes(bytes, Endian::Little)?` first). -/
def fromBytes (c : Codec) (p : Profile) (bytes : Bytes) : Res (UMap Str Bytes) :=
  match BinArchive.parse c .little bytes with               -- :18
  | .ok a => fromArchive p a
  | .err e => .err e
  | .panic => .panic

end Mila.Arc
