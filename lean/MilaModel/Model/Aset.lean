/-
Model of `src/aset.rs` (`ASetFile::from_archive`, `ASetFile::serialize`), statement by statement,
on top of the shared bin-archive model (`BinArchive`, `Reader`, `Writer`).

Conventions: a set is the Rust `Vec<Option<String>>` (entry 0 = label, entries 1..=256 = slots);
`u32` flag words are `Nat`s (every value built here is `< 2^32` by construction); loops over a
constant count are structural recursions on the count, the `while reader.tell() < archive.size()`
loop is a well-founded recursion on the bytes that remain (every iteration reads at least one word).
Values pushed into a `Vec` one by one are returned as a list (on `Err` the Rust discards them anyway).
-/
import MilaModel.Model.BinStreams

namespace Mila.Aset
open Mila BinArchive

/-- `pub struct ASetFile` (aset.rs:365-369). -/
structure ASetFile where
  metaStr : Option Str
  animClipTable : List (Option Str)
  sets : List (List (Option Str))
  deriving Repr, DecidableEq

/-- The reserved label `"AnimClipNameTable"` (aset.rs:386, 438). -/
def tableLabel : Str :=
  bs ['A', 'n', 'i', 'm', 'C', 'l', 'i', 'p', 'N', 'a', 'm', 'e', 'T', 'a', 'b', 'l', 'e']

/-- `(flags & (1 << bit)) != 0` on `u32` (aset.rs:406, 409). -/
def bitSet (flags bit : Nat) : Bool := flags &&& (1 <<< bit) != 0

/-! ### `from_archive` (aset.rs:380-425) -/

/-- aset.rs:395-397: `for _ in 0..n { table.push(reader.read_string()?) }`. -/
def readTable (a : BinArchive) : Nat → Reader → Res (List (Option Str) × Reader)
  | 0, r => .ok ([], r)
  | n + 1, r =>
    match r.readString a with
    | .ok (s, r1) =>
      match readTable a n r1 with
      | .ok (rest, r2) => .ok (s :: rest, r2)
      | .err e => .err e
      | .panic => .panic
    | .err e => .err e
    | .panic => .panic

/-- aset.rs:408-414: the slots of a present group, bits `bit .. bit+n`. -/
def readSlots (a : BinArchive) (flags : Nat) : Nat → Nat → Reader → Res (List (Option Str) × Reader)
  | 0, _, r => .ok ([], r)
  | n + 1, bit, r =>
    if bitSet flags bit then
      match r.readString a with
      | .ok (s, r1) =>
        match readSlots a flags n (bit + 1) r1 with
        | .ok (rest, r2) => .ok (s :: rest, r2)
        | .err e => .err e
        | .panic => .panic
      | .err e => .err e
      | .panic => .panic
    else
      match readSlots a flags n (bit + 1) r with
      | .ok (rest, r2) => .ok (none :: rest, r2)
      | .err e => .err e
      | .panic => .panic

/-- aset.rs:404-420: groups `i .. i+n` of one set. -/
def readGroups (a : BinArchive) (mainFlags : Nat) : Nat → Nat → Reader → Res (List (Option Str) × Reader)
  | 0, _, r => .ok ([], r)
  | n + 1, i, r =>
    if bitSet mainFlags i then
      match r.readU32 a with
      | .ok (flags, r1) =>
        match readSlots a flags 32 0 r1 with
        | .ok (slots, r2) =>
          match readGroups a mainFlags n (i + 1) r2 with
          | .ok (rest, r3) => .ok (slots ++ rest, r3)
          | .err e => .err e
          | .panic => .panic
        | .err e => .err e
        | .panic => .panic
      | .err e => .err e
      | .panic => .panic
    else
      match readGroups a mainFlags n (i + 1) r with
      | .ok (rest, r3) => .ok (List.replicate 32 none ++ rest, r3)
      | .err e => .err e
      | .panic => .panic

/-- aset.rs:401-421: one set. -/
def readSet (a : BinArchive) (r : Reader) : Res (List (Option Str) × Reader) :=
  match r.readLabel a 0 with
  | .ok label =>
    match r.readU32 a with
    | .ok (mainFlags, r1) =>
      match readGroups a mainFlags 8 0 r1 with
      | .ok (slots, r2) => .ok (label :: slots, r2)
      | .err e => .err e
      | .panic => .panic
    | .err e => .err e
    | .panic => .panic
  | .err e => .err e
  | .panic => .panic

theorem readSlots_pos {a : BinArchive} {flags : Nat} :
    ∀ (n bit : Nat) (r : Reader) {l r'}, readSlots a flags n bit r = .ok (l, r') → r.pos ≤ r'.pos := by
  intro n
  induction n with
  | zero => intro bit r l r' h; simp [readSlots] at h; rw [h.2]; exact Nat.le_refl _
  | succ n ih =>
    intro bit r l r' h
    unfold readSlots at h
    split at h
    · cases h1 : r.readString a with
      | ok v =>
        obtain ⟨s, r1⟩ := v
        rw [h1] at h; simp only at h
        cases h2 : readSlots a flags n (bit + 1) r1 with
        | ok v2 =>
          obtain ⟨rest, r2⟩ := v2
          rw [h2] at h; simp only [Res.ok.injEq, Prod.mk.injEq] at h
          have := ih _ _ h2
          have hp : r1.pos = r.pos + 4 := by
            unfold Reader.readString Reader.step at h1
            split at h1 <;> simp_all
            rw [← h1.2]
          rw [← h.2]; omega
        | err e => rw [h2] at h; simp at h
        | panic => rw [h2] at h; simp at h
      | err e => rw [h1] at h; simp at h
      | panic => rw [h1] at h; simp at h
    · cases h2 : readSlots a flags n (bit + 1) r with
      | ok v2 =>
        obtain ⟨rest, r2⟩ := v2
        rw [h2] at h; simp only [Res.ok.injEq, Prod.mk.injEq] at h
        have := ih _ _ h2
        rw [← h.2]; exact this
      | err e => rw [h2] at h; simp at h
      | panic => rw [h2] at h; simp at h

theorem readU32_pos {a : BinArchive} {r : Reader} {v r'} (h : r.readU32 a = .ok (v, r')) :
    r'.pos = r.pos + 4 ∧ r.pos + 4 ≤ a.size := by
  unfold Reader.readU32 Reader.step at h
  split at h
  · rename_i v' hv
    simp only [Res.ok.injEq, Prod.mk.injEq] at h
    refine ⟨by rw [← h.2], ?_⟩
    unfold BinArchive.readU32 readUInt validateCell validateAddress at hv
    by_cases h1 : r.pos ≥ a.size
    · simp [h1] at hv
    · by_cases h2 : r.pos + 4 > a.size
      · simp [h1, h2] at hv
      · omega
  · simp at h
  · simp at h

theorem readGroups_pos {a : BinArchive} {mainFlags : Nat} :
    ∀ (n i : Nat) (r : Reader) {l r'}, readGroups a mainFlags n i r = .ok (l, r') → r.pos ≤ r'.pos := by
  intro n
  induction n with
  | zero => intro i r l r' h; simp [readGroups] at h; rw [h.2]; exact Nat.le_refl _
  | succ n ih =>
    intro i r l r' h
    unfold readGroups at h
    split at h
    · cases h1 : r.readU32 a with
      | ok v =>
        obtain ⟨fl, r1⟩ := v
        rw [h1] at h; simp only at h
        cases h2 : readSlots a fl 32 0 r1 with
        | ok v2 =>
          obtain ⟨slots, r2⟩ := v2
          rw [h2] at h; simp only at h
          cases h3 : readGroups a mainFlags n (i + 1) r2 with
          | ok v3 =>
            obtain ⟨rest, r3⟩ := v3
            rw [h3] at h; simp only [Res.ok.injEq, Prod.mk.injEq] at h
            have := ih _ _ h3
            have := readSlots_pos _ _ _ h2
            have := (readU32_pos h1).1
            rw [← h.2]; omega
          | err e => rw [h3] at h; simp at h
          | panic => rw [h3] at h; simp at h
        | err e => rw [h2] at h; simp at h
        | panic => rw [h2] at h; simp at h
      | err e => rw [h1] at h; simp at h
      | panic => rw [h1] at h; simp at h
    · cases h3 : readGroups a mainFlags n (i + 1) r with
      | ok v3 =>
        obtain ⟨rest, r3⟩ := v3
        rw [h3] at h; simp only [Res.ok.injEq, Prod.mk.injEq] at h
        have := ih _ _ h3
        rw [← h.2]; exact this
      | err e => rw [h3] at h; simp at h
      | panic => rw [h3] at h; simp at h

/-- Every successfully read set consumes at least its main flag word. -/
theorem readSet_pos {a : BinArchive} {r : Reader} {s r'} (h : readSet a r = .ok (s, r')) :
    r.pos + 4 ≤ r'.pos := by
  unfold readSet at h
  cases h0 : r.readLabel a 0 with
  | ok label =>
    rw [h0] at h; simp only at h
    cases h1 : r.readU32 a with
    | ok v =>
      obtain ⟨mf, r1⟩ := v
      rw [h1] at h; simp only at h
      cases h2 : readGroups a mf 8 0 r1 with
      | ok v2 =>
        obtain ⟨slots, r2⟩ := v2
        rw [h2] at h; simp only [Res.ok.injEq, Prod.mk.injEq] at h
        have := readGroups_pos _ _ _ h2
        have := (readU32_pos h1).1
        rw [← h.2]; omega
      | err e => rw [h2] at h; simp at h
      | panic => rw [h2] at h; simp at h
    | err e => rw [h1] at h; simp at h
    | panic => rw [h1] at h; simp at h
  | err e => rw [h0] at h; simp at h
  | panic => rw [h0] at h; simp at h

set_option linter.unusedVariables false in
/-- aset.rs:400-422: `while reader.tell() < archive.size() { … aset.sets.push(set) }`. -/
def readSets (a : BinArchive) (r : Reader) (acc : List (List (Option Str))) :
    Res (List (List (Option Str))) :=
  if r.pos < a.size then
    match h : readSet a r with
    | .ok (set, r') => readSets a r' (acc ++ [set])
    | .err e => .err e
    | .panic => .panic
  else .ok acc
termination_by a.size - r.pos
decreasing_by
  have := readSet_pos h
  omega

/-- `ASetFile::from_archive` (aset.rs:380-425). -/
def fromArchive (a : BinArchive) : Res ASetFile :=
  let r : Reader := ⟨0⟩                                         -- :381
  let r := r.skip 4                                             -- :382
  match a.findLabelAddress tableLabel with                      -- :384-389
  | none => .err .Other
  | some tableAddress =>
    match r.readString a with                                   -- :391
    | .ok (metaStr, r) =>
      let r := r.seek tableAddress                              -- :394
      match readTable a 257 r with                              -- :395-397
      | .ok (table, r) =>
        match readSets a r [] with                              -- :400-422
        | .ok sets => .ok ⟨metaStr, table, sets⟩
        | .err e => .err e
        | .panic => .panic
      | .err e => .err e
      | .panic => .panic
    | .err e => .err e
    | .panic => .panic

/-! ### `serialize` (aset.rs:427-489)

The flag-compilation loop nest (aset.rs:446-468) updates four accumulators while it walks
`flag_set ∈ 0..8`, `bit ∈ 0..32`; each accumulator is written here as its own fold over the same
index ranges. -/

/-- `set.get(index).map(|entry| entry.is_some()).unwrap_or_default()` (aset.rs:454-457). -/
def present (set : List (Option Str)) (index : Nat) : Bool :=
  match set[index]? with
  | some (some _) => true
  | _ => false

/-- `set_flags` of group `flagSet` (aset.rs:451-462). -/
def setFlags (set : List (Option Str)) (flagSet : Nat) : Nat :=
  (List.range 32).foldl
    (fun f bit => if present set (flagSet * 32 + bit + 1) then f ||| (1 <<< bit) else f) 0

/-- Contribution of group `flagSet` to `strings_to_write` (aset.rs:460). -/
def stringsIn (set : List (Option Str)) (flagSet : Nat) : Nat :=
  (List.range 32).countP (fun bit => present set (flagSet * 32 + bit + 1))

/-- `compiled_flags` (aset.rs:449, 463). -/
def compiledFlags (set : List (Option Str)) : List Nat := (List.range 8).map (setFlags set)

/-- `main_flags` (aset.rs:446, 464-465). -/
def mainFlags (set : List (Option Str)) : Nat :=
  (List.range 8).foldl (fun m g => if setFlags set g ≠ 0 then m ||| (1 <<< g) else m) 0

/-- `flags_to_write` (aset.rs:447, 466). -/
def flagsToWrite (set : List (Option Str)) : Nat :=
  (List.range 8).countP (fun g => setFlags set g ≠ 0)

/-- `strings_to_write` (aset.rs:448, 460). -/
def stringsToWrite (set : List (Option Str)) : Nat := ((List.range 8).map (stringsIn set)).sum

/-- aset.rs:479-484: slots `j .. j+n` of group `i`. -/
def writeSlots (set : List (Option Str)) (i : Nat) : Nat → Nat → Writer → Res Writer
  | 0, _, w => .ok w
  | n + 1, j, w =>
    match (set[i * 32 + j + 1]?).join with     -- `set.get(index).and_then(|entry| entry.as_deref())`
    | some v =>
      match w.writeString (some v) with
      | .ok w1 => writeSlots set i n (j + 1) w1
      | .err e => .err e
      | .panic => .panic
    | none => writeSlots set i n (j + 1) w

/-- aset.rs:476-486: `for (i, flag) in compiled_flags.iter().enumerate().take(8)`. -/
def writeGroups (set : List (Option Str)) : List Nat → Nat → Writer → Res Writer
  | [], _, w => .ok w
  | flag :: rest, i, w =>
    if flag ≠ 0 then
      match w.writeU32 flag with
      | .ok w1 =>
        match writeSlots set i 32 0 w1 with
        | .ok w2 => writeGroups set rest (i + 1) w2
        | .err e => .err e
        | .panic => .panic
      | .err e => .err e
      | .panic => .panic
    else writeGroups set rest (i + 1) w

/-- aset.rs:475-486: main flag word, then the groups. -/
def writeSetBody (set : List (Option Str)) (w : Writer) : Res Writer :=
  match w.writeU32 (mainFlags set) with                                            -- :475
  | .ok w2 => writeGroups set ((compiledFlags set).take 8) 0 w2                    -- :476-486
  | .err e => .err e
  | .panic => .panic

/-- aset.rs:444-487: one iteration of `for set in &self.sets`. -/
def writeSet (w : Writer) (set : List (Option Str)) : Res Writer :=
  let w := w.allocateAtEnd ((flagsToWrite set + stringsToWrite set + 1) * 4)      -- :471
  match set[0]? with                                  -- :472 `&set[0]` panics on an empty set
  | none => .panic
  | some none => writeSetBody set w
  | some (some label) =>
    match w.writeLabel label with                                                  -- :473
    | .ok w1 => writeSetBody set w1
    | .err e => .err e
    | .panic => .panic

def writeSets : List (List (Option Str)) → Writer → Res Writer
  | [], w => .ok w
  | set :: rest, w =>
    match writeSet w set with
    | .ok w1 => writeSets rest w1
    | .err e => .err e
    | .panic => .panic

/-- aset.rs:439-441. -/
def writeTable : List (Option Str) → Writer → Res Writer
  | [], w => .ok w
  | name :: rest, w =>
    match w.writeString name with
    | .ok w1 => writeTable rest w1
    | .err e => .err e
    | .panic => .panic

/-- The archive `ASetFile::serialize` builds before it calls `archive.serialize()` (aset.rs:428-487). -/
def build (f : ASetFile) : Res BinArchive :=
  let a := (BinArchive.new .little).allocateAtEnd 12              -- :429-430
  match a.writeUInt 0 4 4 with                                    -- :431
  | .ok a =>
    match a.writeString 4 f.metaStr with                             -- :432
    | .ok a =>
      match a.writeUInt 8 4 0x100 with                            -- :433
      | .ok a =>
        let a := a.allocateAtEnd (f.animClipTable.length * 4)     -- :436
        let w : Writer := ⟨a, 12⟩                                 -- :437
        match w.writeLabel tableLabel with                        -- :438
        | .ok w =>
          match writeTable f.animClipTable w with                 -- :439-441
          | .ok w =>
            match writeSets f.sets w with                         -- :444-487
            | .ok w => .ok w.archive
            | .err e => .err e
            | .panic => .panic
          | .err e => .err e
          | .panic => .panic
        | .err e => .err e
        | .panic => .panic
      | .err e => .err e
      | .panic => .panic
    | .err e => .err e
    | .panic => .panic
  | .err e => .err e
  | .panic => .panic

/-- `ASetFile::serialize` (aset.rs:427-489). -/
def serialize (c : Codec) (f : ASetFile) : Res Bytes :=
  match build f with
  | .ok a => a.serialize c                                        -- :488
  | .err e => .err e
  | .panic => .panic

end Mila.Aset
