/-
C05: the untrusted-bytes entry points of the archive family, each as
`bytes ↦ (outcome, explicitly sized allocation requests)`.  The outcome carries the parsed value
so that re-serialisation can be modelled on it.  The requests are the sizes the Rust passes to
`resize` / `vec![0; n]` / `with_capacity` / `reserve` on the strength of a header or table field
(M6); growth by `push` is bounded by the bytes actually read and is not logged.
-/
import MilaModel.Model.BinArchive

namespace Mila.Parsers
open Mila BinArchive

/-- `BinArchive::from_bytes`: the one sized request is `archive.data.resize(data_size, 0)`
(bin_archive.rs, after the size check). -/
def binRequests (e : Endian) (bytes : Bytes) : List Nat :=
  if bytes.length < 0x20 then [] else
  let dataSize := e.dec (slice bytes 4 4)
  let pointerCount := e.dec (slice bytes 8 4)
  let labelCount := e.dec (slice bytes 12 4)
  if dataSize + pointerCount * 4 + labelCount * 8 + 0x20 > bytes.length then [] else [dataSize]

/-- Every other entry point of the family starts with `BinArchive::from_bytes` (text archives in
either encoding, arc, aset, asset binaries) and makes no further explicitly sized request:
strings, records and file bodies are produced by `push`/`to_vec` of ranges that were validated
against the data region first (after fixes D8, D19).  `fe9_arc::parse` makes none at all
(`raw.get(start..end)` is checked before the copy). -/
def requests (entry : String) (bytes : Bytes) : List Nat :=
  match entry with
  | "binLE" | "textSjisLE" | "textUniLE" | "arc" | "aset" | "asset" => binRequests .little bytes
  | "binBE" | "textSjisBE" | "textUniBE" => binRequests .big bytes
  | _ => []

end Mila.Parsers
