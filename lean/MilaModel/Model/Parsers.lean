/-
C05: the untrusted-bytes entry points of the archive family, each as
`bytes ↦ (outcome, explicitly sized allocation requests)`.  The outcome carries the parsed value
so that re-serialisation can be modelled on it.  The requests are the sizes the Rust passes to
`resize` / `vec![0; n]` / `with_capacity` / `reserve` on the strength of a header or table field
(M6); growth by `push` is bounded by the bytes actually read and is not logged.
-/
import MilaModel.Model.BinArchive

namespace Mila.Parsers
open Mila BinArchive

/-- `BinArchive::from_bytes`: the one sized request is `archive.data.resize(data_size, 0)`
(bin_archive.rs, after the size check). -/
def binRequests (e : Endian) (bytes : Bytes) : List Nat :=
  if bytes.length < 0x20 then [] else
  let dataSize := e.dec (slice bytes 4 4)
  let pointerCount := e.dec (slice bytes 8 4)
  let labelCount := e.dec (slice bytes 12 4)
  if dataSize + pointerCount * 4 + labelCount * 8 + 0x20 > bytes.length then [] else [dataSize]

end Mila.Parsers
