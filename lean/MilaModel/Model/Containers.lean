/-
Model of the texture container readers `src/ctpk.rs`, `src/bch.rs`, `src/cgfx.rs`, `src/tpl.rs` (C20).

The readers are written in a small reader language `Prog` (a free monad over the operations the
Rust performs on its `Cursor<&[u8]>`): `read n` (`read_exact`, `UnexpectedEof` when fewer than `n`
bytes remain), `getPos` (`position()` / `seek(Current(0))`), `setPos` (`seek(Start(_))`,
`seek(Current(_))` — neither can fail for the 32-bit offsets involved), and `name`
(`read_until(0)`, `pop()`, text decoding, `BadText` on failure; the cursor position after
`read_until` is dead in all three readers — the next cursor operation is always an absolute seek
(ctpk.rs:112, bch.rs:142, cgfx.rs:171 / end of loop) — so `name` leaves the position where it was).
Decoded names are collected by
the interpreter in the order they are read; they never influence control flow in the Rust either,
except through `BadText`.  `run` interprets a program on a buffer; because the programs are data,
the prefix-simulation lemma of C20 is proved once, by induction on `Prog`.

`hi` is a ghost component of the interpreter state: the largest end offset of a successful
non-empty `read`.  It has no counterpart in the Rust and no influence on results; the C20 proof of
"a cut payload gives an error" is stated with it.

`u32` sums that the Rust computes on header fields go through the `Profile` (checked builds panic
on overflow, unchecked ones wrap): ctpk.rs:113, bch.rs:94-95, 117, 121, 124, 131, 146, cgfx.rs:58,
95-96, 139, 149.

`tpl.rs` uses the `binread` derive crate (2.1.1); its semantics are modelled by hand:
`FilePtr32::parse` = read a big-endian `u32` pointer, remember the position, `seek(Start(0))`,
`seek(Current(ptr))`, parse the target, `seek(Start(before))`, `seek(Start(saved))`
(binread file_ptr.rs:77-112); `Vec<T>` with `count` = `count` element reads (binread_impls.rs:70-105;
a `Vec<u8>` of `count` single-byte reads is one `read count`); `#[br(magic = 0x0020AF30)]` = a
big-endian `i32` read compared with the constant, `BadMagic` otherwise; a `repr = u32` enum = a
`u32` read, `NoVariantMatch` when no variant has the value; struct fields are read in declaration
order; `after_parse` is a no-op for every type involved except `FilePtr` (already run by `parse`).
Positions restored on the error path are irrelevant (the error is returned to the caller).
-/
import MilaModel.Model.Etc1
import MilaModel.Model.Codec

namespace Mila
namespace Containers
open Pixel

/-! ### text decoding of names -/

def isCont (b : UInt8) : Bool := 0x80 ≤ b && b ≤ 0xBF

/-- `UTF_8.decode_without_bom_handling(..).1 == false`: well-formed UTF-8 (Unicode Table 3-7,
the WHATWG decoder `encoding_rs` implements). -/
def utf8Valid : Bytes → Bool
  | [] => true
  | b0 :: rest =>
    if b0 < 0x80 then utf8Valid rest
    else if 0xC2 ≤ b0 && b0 ≤ 0xDF then
      match rest with
      | b1 :: r => isCont b1 && utf8Valid r
      | _ => false
    else if b0 == 0xE0 then
      match rest with
      | b1 :: b2 :: r => (0xA0 ≤ b1 && b1 ≤ 0xBF) && isCont b2 && utf8Valid r
      | _ => false
    else if (0xE1 ≤ b0 && b0 ≤ 0xEC) || b0 == 0xEE || b0 == 0xEF then
      match rest with
      | b1 :: b2 :: r => isCont b1 && isCont b2 && utf8Valid r
      | _ => false
    else if b0 == 0xED then
      match rest with
      | b1 :: b2 :: r => (0x80 ≤ b1 && b1 ≤ 0x9F) && isCont b2 && utf8Valid r
      | _ => false
    else if b0 == 0xF0 then
      match rest with
      | b1 :: b2 :: b3 :: r => (0x90 ≤ b1 && b1 ≤ 0xBF) && isCont b2 && isCont b3 && utf8Valid r
      | _ => false
    else if 0xF1 ≤ b0 && b0 ≤ 0xF3 then
      match rest with
      | b1 :: b2 :: b3 :: r => isCont b1 && isCont b2 && isCont b3 && utf8Valid r
      | _ => false
    else if b0 == 0xF4 then
      match rest with
      | b1 :: b2 :: b3 :: r => (0x80 ≤ b1 && b1 ≤ 0x8F) && isCont b2 && isCont b3 && utf8Valid r
      | _ => false
    else false

/-- Strict Shift-JIS decoding on the sub-alphabet of `Codec.sjisSub` (ASCII, half-width katakana,
hiragana, katakana); `none` = the decoder reports an error **or** the bytes leave the modelled
alphabet (generators only produce names inside it; a prefix of such a name is again inside it or
ends in a lone lead byte, which is an error in `encoding_rs` too). -/
def sjisStrict : Bytes → Option Bytes
  | [] => some []
  | b0 :: rest =>
    if b0 < 0x80 then (sjisStrict rest).map (b0 :: ·)
    else if 0xA1 ≤ b0 && b0 ≤ 0xDF then
      (sjisStrict rest).map (Sjis.utf8Encode1 (0xFF61 + (b0.toNat - 0xA1)) ++ ·)
    else if b0 == 0x82 then
      match rest with
      | b1 :: r =>
        if 0x9F ≤ b1 && b1 ≤ 0xF1 then (sjisStrict r).map (Sjis.utf8Encode1 (0x3041 + (b1.toNat - 0x9F)) ++ ·)
        else none
      | [] => none
    else if b0 == 0x83 then
      match rest with
      | b1 :: r =>
        if 0x40 ≤ b1 && b1 ≤ 0x7E then (sjisStrict r).map (Sjis.utf8Encode1 (0x30A1 + (b1.toNat - 0x40)) ++ ·)
        else if 0x80 ≤ b1 && b1 ≤ 0x96 then (sjisStrict r).map (Sjis.utf8Encode1 (0x30E0 + (b1.toNat - 0x80)) ++ ·)
        else none
      | [] => none
    else none

inductive NameEnc | sjis | utf8
  deriving DecidableEq, Repr

/-- ctpk.rs:105 `SHIFT_JIS.decode` (BOM sniffing: a leading `EF BB BF` switches to UTF-8 and is
removed; a leading UTF-16 BOM switches to UTF-16, which is not modelled — `none`);
bch.rs:136 / cgfx.rs:179 `UTF_8.decode_without_bom_handling`.  `none` = `BadText`. -/
def decodeName (enc : NameEnc) (raw : Bytes) : Option Bytes :=
  match enc with
  | .utf8 => if utf8Valid raw then some raw else none
  | .sjis =>
    match raw with
    | 0xEF :: 0xBB :: 0xBF :: rest => if utf8Valid rest then some rest else none
    | 0xFF :: 0xFE :: _ => none
    | 0xFE :: 0xFF :: _ => none
    | _ => sjisStrict raw

/-! ### the reader language -/

inductive Prog (α : Type) : Type
  | ret (a : α)
  | fail (e : Err)
  | panic
  | read (n : Nat) (k : Buf → Prog α)
  | getPos (k : Nat → Prog α)
  | setPos (p : Nat) (k : Prog α)
  | name (enc : NameEnc) (k : Prog α)

namespace Prog

def bind {α β : Type} : Prog α → (α → Prog β) → Prog β
  | .ret a, f => f a
  | .fail e, _ => .fail e
  | .panic, _ => .panic
  | .read n k, f => .read n (fun b => (k b).bind f)
  | .getPos k, f => .getPos (fun p => (k p).bind f)
  | .setPos p k, f => .setPos p (k.bind f)
  | .name e k, f => .name e (k.bind f)

instance : Monad Prog where
  pure := .ret
  bind := bind

/-- A `Res` computed outside the cursor (arithmetic, pixel decoding). -/
def lift {α : Type} : Res α → Prog α
  | .ok a => .ret a
  | .err e => .fail e
  | .panic => .panic

def readBytes (n : Nat) : Prog Buf := .read n .ret
def u8 : Prog Nat := .read 1 (fun b => .ret (b.leN 0 1))
def u16le : Prog Nat := .read 2 (fun b => .ret (b.leN 0 2))
def u32le : Prog Nat := .read 4 (fun b => .ret (b.leN 0 4))
def u16be : Prog Nat := .read 2 (fun b => .ret (b.beN 0 2))
def u32be : Prog Nat := .read 4 (fun b => .ret (b.beN 0 4))
def position : Prog Nat := .getPos .ret
/-- `seek(SeekFrom::Start(n))` -/
def seekStart (n : Nat) : Prog Unit := .setPos n (.ret ())
/-- `seek(SeekFrom::Current(n))`, `n ≥ 0` -/
def skip (n : Nat) : Prog Unit := .getPos (fun p => .setPos (p + n) (.ret ()))
def readName (enc : NameEnc) : Prog Unit := .name enc (.ret ())
/-- `if !c { return Err(e) }` -/
def require (c : Bool) (e : Err) : Prog Unit := if c then .ret () else .fail e

/-- `for _ in 0..n { out.push(p?) }` -/
def repeatN {α : Type} (p : Prog α) : Nat → Prog (List α)
  | 0 => .ret []
  | n + 1 => p.bind fun a => (repeatN p n).bind fun as => .ret (a :: as)

/-- `for i in start..start+n { out.push(f(i)?) }` (lazy in `n`: a corrupt 32-bit count does not
materialise a list). -/
def forIdx {α : Type} (f : Nat → Prog α) : Nat → Nat → Prog (List α)
  | 0, _ => .ret []
  | n + 1, i => (f i).bind fun a => (forIdx f n (i + 1)).bind fun as => .ret (a :: as)

/-- `for x in xs { out.push(f(x)?) }` -/
def mapM' {α β : Type} (f : α → Prog β) : List α → Prog (List β)
  | [] => .ret []
  | x :: xs => (f x).bind fun b => (mapM' f xs).bind fun bs => .ret (b :: bs)

end Prog

/-- Interpreter state: cursor position, names decoded so far (latest first), ghost high-water
mark of `read`. -/
structure St where
  pos : Nat
  names : List Bytes
  hi : Nat
  deriving Repr

/-- Number of non-zero bytes from `pos` on (stops at the first 0 or at the end). -/
def nameLen (d : Buf) (pos : Nat) : Nat → Nat
  | 0 => 0
  | fuel + 1 => if pos < d.size ∧ d.getD pos 0 ≠ 0 then nameLen d (pos + 1) fuel + 1 else 0

/-- `read_until(0x0, &mut buf); buf.pop();` at `pos`: the bytes kept.  When the terminator is
missing (end of data) the `pop` removes the last byte of the name. -/
def rawName (d : Buf) (pos : Nat) : Bytes :=
  let len := nameLen d pos (d.size - pos)
  let body := (d.extract pos (pos + len)).toList
  if pos + len < d.size then body else body.dropLast

def run {α : Type} : Prog α → Buf → St → Res (α × St)
  | .ret a, _, s => .ok (a, s)
  | .fail e, _, _ => .err e
  | .panic, _, _ => .panic
  | .read n k, d, s =>
    if n = 0 then run (k #[]) d s
    else if s.pos + n ≤ d.size then
      run (k (d.extract s.pos (s.pos + n))) d { s with pos := s.pos + n, hi := max s.hi (s.pos + n) }
    else .err .Eof
  | .getPos k, d, s => run (k s.pos) d s
  | .setPos p k, d, s => run k d { s with pos := p }
  | .name enc k, d, s =>
    match decodeName enc (rawName d s.pos) with
    | none => .err .Decoding
    | some str => run k d { s with names := str :: s.names }

/-- A decoded texture (`Texture` of texture.rs; `filename` as UTF-8 bytes). -/
structure Texture where
  name : Bytes
  width : Nat
  height : Nat
  pixels : Buf
  deriving Repr

/-- What a reader program returns per texture; the name comes from the interpreter's log. -/
abbrev Raw := Nat × Nat × Buf

def assemble (names : List Bytes) (raws : List Raw) : List Texture :=
  List.zipWith (fun n (r : Raw) => ⟨n, r.1, r.2.1, r.2.2⟩) names raws

/-- Run a reader program from position 0 and pair the names (in reading order) with the textures. -/
def runReader (prog : Prog (List Raw)) (d : Buf) : Res (List Texture) :=
  match run prog d ⟨0, [], 0⟩ with
  | .ok (raws, s) => .ok (assemble s.names.reverse raws)
  | .err e => .err e
  | .panic => .panic

open Prog

/-- `vec![0; n]; reader.read_exact(..)` followed by `decode_pixel_data` (ctpk.rs:115-127,
bch.rs:151-158). -/
def readAndDecode (p : Profile) (size width height format : Nat) : Prog Raw := do
  let data ← readBytes size
  let px ← lift (decodePixelData p data width height format)
  pure (width, height, px)

/-! ### ctpk.rs -/

structure CtpkInfo where
  filename_ptr : Nat
  texture_ptr : Nat
  pixel_format : Nat
  width : Nat
  height : Nat

/-- ctpk.rs:58-83 `TextureInfo::new`. -/
def ctpkInfo : Prog CtpkInfo := do
  let filename_ptr ← u32le
  let _texture_length ← u32le
  let texture_ptr ← u32le
  let pixel_format ← u32le
  let width ← u16le
  let height ← u16le
  let _mipmap_level ← u8
  let _texture_type ← u8
  let _cube_dir ← u16le
  let _bitmap_size_ptr ← u32le
  let _file_time ← u32le
  pure ⟨filename_ptr, texture_ptr, pixel_format, width, height⟩

/-- ctpk.rs:22-40 `Header::new`: returns `(texture_count, texture_ptr)`. -/
def ctpkHeader : Prog (Nat × Nat) := do
  let _magic_id ← u32le
  let _version ← u16le
  let texture_count ← u16le
  let texture_ptr ← u32le
  let _texture_length ← u32le
  let _hash_ptr ← u32le
  let _short_info_ptr ← u32le
  skip 8
  pure (texture_count, texture_ptr)

/-- ctpk.rs:99-134: one texture. -/
def ctpkTexture (p : Profile) (header_texture_ptr : Nat) (info : CtpkInfo) : Prog Raw := do
  seekStart info.filename_ptr                                                    -- :101
  readName .sjis                                                                 -- :102-109
  let off ← lift (add32 p header_texture_ptr info.texture_ptr)                  -- :113
  seekStart off
  readAndDecode p (payloadSize info.pixel_format info.width info.height) info.width info.height
    info.pixel_format                                                            -- :115-127

/-- ctpk.rs:86-136 `read` (no magic check in the code). -/
def ctpkProg (p : Profile) : Prog (List Raw) := do
  let hdr ← ctpkHeader                                                           -- :89
  let infos ← repeatN ctpkInfo hdr.1                                             -- :92-95
  mapM' (ctpkTexture p hdr.2) infos                                              -- :99-134

def ctpkRead (p : Profile) (d : Buf) : Res (List Texture) := runReader (ctpkProg p) d

/-! ### bch.rs -/

/-- bch.rs:115-165: one entry of the texture pointer table. -/
def bchEntry (p : Profile) (contents_address strings_address commands_address raw_data_address
    table_offset entry : Nat) : Prog Raw := do
  let e4 ← lift (mul32 p entry 4)                                                -- :117
  let entry_pos ← lift (add32 p table_offset e4)
  seekStart entry_pos
  let dest ← u32le                                                               -- :120
  let d2 ← lift (add32 p dest contents_address)                                  -- :121
  seekStart d2
  let c0 ← u32le                                                                 -- :123-124
  let tex_unit0_commands_offset ← lift (add32 p c0 commands_address)
  skip 24                                                                        -- :125
  let name_offset ← u32le                                                        -- :127
  let no ← lift (add32 p strings_address name_offset)                            -- :130-132
  seekStart no
  readName .utf8                                                                 -- :133-140
  seekStart tex_unit0_commands_offset                                            -- :142
  let height ← u16le                                                             -- :143
  let width ← u16le                                                              -- :144
  skip 0xC                                                                       -- :145
  let d0 ← u32le                                                                 -- :146
  let data_offset ← lift (add32 p d0 raw_data_address)
  skip 4                                                                         -- :147
  let pixel_format ← u32le                                                       -- :148
  seekStart data_offset                                                          -- :150
  readAndDecode p (payloadSize pixel_format width height) width height pixel_format  -- :151-158

structure BchHeader where
  contents_address : Nat
  strings_address : Nat
  commands_address : Nat
  raw_data_address : Nat

/-- bch.rs:34-86 `Header::new`. -/
def bchHeader : Prog BchHeader := do
  let magic_id ← u32le
  require (magic_id = 0x484342) .BadMagic                                        -- :36-38
  let backward_compatibility ← u8
  let _forward_compatibility ← u8
  let _version ← u16le
  let contents_address ← u32le
  let strings_address ← u32le
  let commands_address ← u32le
  let raw_data_address ← u32le
  if backward_compatibility > 20 then (do let _ ← u32le; pure ()) else pure ()   -- :46-50 (N2: `> 20`)
  let _relocation_address ← u32le
  let _contents_length ← u32le
  let _strings_length ← u32le
  let _commands_length ← u32le
  let _raw_data_length ← u32le
  if backward_compatibility > 20 then (do let _ ← u32le; pure ()) else pure ()   -- :56-60
  let _relocation_length ← u32le
  let _uninit_data_length ← u32le
  let _uninit_commands_length ← u32le
  pure ⟨contents_address, strings_address, commands_address, raw_data_address⟩

/-- bch.rs:93-103 `ContentTable::new`: returns `(textures_ptr_table_offset, entries)`. -/
def bchContentTable (p : Profile) (contents_address : Nat) : Prog (Nat × Nat) := do
  let ct ← lift (add32 p contents_address 0x24)                                  -- :94
  seekStart ct
  let t0 ← u32le                                                                 -- :95
  let textures_ptr_table_offset ← lift (add32 p t0 contents_address)
  let textures_ptr_table_entries ← u32le                                         -- :96
  pure (textures_ptr_table_offset, textures_ptr_table_entries)

/-- bch.rs:105-167 `read`. -/
def bchProg (p : Profile) : Prog (List Raw) := do
  let h ← bchHeader                                                              -- :108
  seekStart h.contents_address                                                   -- :110
  let ct ← bchContentTable p h.contents_address                                  -- :111
  forIdx (bchEntry p h.contents_address h.strings_address h.commands_address h.raw_data_address ct.1)
    ct.2 0                                                                       -- :115

def bchRead (p : Profile) (d : Buf) : Res (List Texture) := runReader (bchProg p) d

/-! ### cgfx.rs -/

/-- `reader.position() as u32 + reader.read_u32()?` (cgfx.rs:58, 95-96, 139, 149): the position is
taken *before* the read. -/
def selfRel (p : Profile) : Prog Nat := do
  let pos ← position
  let v ← u32le
  lift (add32 p (pos % 2 ^ 32) v)

structure Txob where
  filename_offset : Nat
  height : Nat
  width : Nat
  pixel_format : Nat
  size : Nat
  texture_offset : Nat

/-- cgfx.rs:135-161: one TXOB. -/
def cgfxTxob (p : Profile) (object_offset : Nat) : Prog Txob := do
  seekStart object_offset                                                        -- :135
  let _flags ← u32le
  let _magic_id ← u32le
  skip 4
  let filename_offset ← selfRel p                                                -- :139
  skip 8
  let height ← u32le
  let width ← u32le
  skip 8
  let _mipmap_levels ← u32le
  skip 8
  let pixel_format ← u32le
  skip 0xC
  let size ← u32le
  let texture_offset ← selfRel p                                                 -- :149
  pure ⟨filename_offset, height, width, pixel_format, size, texture_offset⟩

/-- cgfx.rs:169-195: one texture of `parse_textures`. -/
def cgfxTexture (p : Profile) (t : Txob) : Prog Raw := do
  seekStart t.texture_offset                                                     -- :171
  let data ← readBytes t.size                                                    -- :170,172
  seekStart t.filename_offset                                                    -- :175
  readName .utf8                                                                 -- :176-183
  let px ← lift (decodePixelData p data t.width t.height t.pixel_format)         -- :187-188
  pure (t.width, t.height, px)

/-- cgfx.rs:22-41 `Header::new`. -/
def cgfxHeader : Prog Unit := do
  let magic_id ← u32le
  require (magic_id = 0x58464743) .BadMagic                                      -- :24-26
  let _byte_order_mark ← u16le
  let _struct_size ← u16le
  let _revision ← u32le
  let _file_size ← u32le
  let _entry_count ← u32le
  pure ()

/-- cgfx.rs:52-69 `DATA::new`: the 16 entry offsets. -/
def cgfxData (p : Profile) : Prog (List Nat) := do
  let _magic ← u32le
  let _size ← u32le
  repeatN (do let _entry_count ← u32le; selfRel p) 16                            -- :56-63

/-- cgfx.rs:87-108 `DICT::new`: the object offsets. -/
def cgfxDict (p : Profile) : Prog (List Nat) := do
  let _magic ← u32le
  let _size ← u32le
  let entry_count ← u32le
  skip 0x10
  repeatN (do
    skip 8
    let _filename_offset ← selfRel p                                             -- :95
    selfRel p) entry_count                                                       -- :96

/-- cgfx.rs:199-210 `read`. -/
def cgfxProg (p : Profile) : Prog (List Raw) := do
  cgfxHeader                                                                     -- :202
  let entries ← cgfxData p                                                       -- :203
  seekStart (entries.getD 1 0)                                                   -- :206
  let objects ← cgfxDict p                                                       -- :207
  let txobs ← mapM' (cgfxTxob p) objects                                         -- TXOB::new :132-164
  mapM' (cgfxTexture p) txobs                                                    -- parse_textures :166-197

def cgfxRead (p : Profile) (d : Buf) : Res (List Texture) := runReader (cgfxProg p) d

/-! ### tpl.rs -/

/-- binread `FilePtr32::parse` (big-endian, offset 0). -/
def filePtr32 {α : Type} (inner : Prog α) : Prog α := do
  let ptr ← u32be
  let saved ← position
  seekStart 0
  skip ptr
  let v ← inner
  seekStart saved     -- after_parse: seek(Start(before))
  seekStart saved     -- parse: seek(Start(saved_pos))
  pure v

structure TplImage where
  height : Nat
  width : Nat
  format : Nat
  data : Buf

structure TplPalette where
  format : Nat
  data : Buf

/-- tpl.rs:59-76 `TplImage`. -/
def tplImage : Prog TplImage := do
  let height ← u16be
  let width ← u16be
  let format ← u32be
  require (tplImageFormatOk format) .Other                        -- NoVariantMatch
  let data ← filePtr32 (readBytes (tplImageBytes format height width))
  let _wrap_s ← u32be
  let _wrap_t ← u32be
  let _min_filter ← u32be
  let _mag_filter ← u32be
  let _lod_bias ← u32be
  let _edge_lod_enable ← u8
  let _min_lod ← u8
  let _max_lod ← u8
  let _unpacked ← u8
  pure ⟨height, width, format, data⟩

/-- tpl.rs:49-57 `TplPalette`. -/
def tplPalette : Prog TplPalette := do
  let entry_count ← u16be
  let _unpacked ← u8
  let _padding ← u8
  let format ← u32be
  require (format ≤ 2) .Other                                     -- NoVariantMatch
  let data ← filePtr32 (readBytes (entry_count * 2))
  pure ⟨format, data⟩

/-- tpl.rs:43-47 `TplImageTableItem`. -/
def tplItem : Prog (TplImage × TplPalette) := do
  let image ← filePtr32 tplImage
  let palette ← filePtr32 tplPalette
  pure (image, palette)

/-- tpl.rs:33-41 `Tpl`. -/
def tplParse : Prog (List (TplImage × TplPalette)) := do
  let magic ← u32be
  require (magic = 0x0020AF30) .BadMagic
  let image_count ← u32be
  filePtr32 (repeatN tplItem image_count)

/-- tpl.rs:85-122: one image of `extract_textures`. -/
def tplTexture (ip : TplImage × TplPalette) : Prog Raw := do
  let px ← lift (tplDecodeImage ip.2.format ip.2.data ip.1.format ip.1.height ip.1.width ip.1.data)
  pure (ip.1.width, ip.1.height, px)

/-- tpl.rs:78-125 `Tpl::extract_textures`: parse, then decode every image. -/
def tplProg : Prog (List Raw) := do
  let items ← tplParse
  mapM' tplTexture items

/-- TPL textures have an empty `filename` (tpl.rs:117). -/
def tplRead (d : Buf) : Res (List Texture) :=
  match run tplProg d ⟨0, [], 0⟩ with
  | .ok (raws, _) => .ok (raws.map fun r => ⟨[], r.1, r.2.1, r.2.2⟩)
  | .err e => .err e
  | .panic => .panic

end Containers
end Mila
