/-
Model of `src/fe9_arc.rs` (GameCube/Wii "pack" archive; after the fix commits D7, D8),
statement by statement.  The `Cursor<&[u8]>` is `(raw, pos)`; `usize` values are `Nat`
(64-bit; `start + size` of two `u32` values cannot overflow).  `IndexMap<String, Vec<u8>>` is an
association list whose order is the insertion order.  The Shift-JIS codec is a parameter.
This file is self-contained (Basic + Codec only) so that the C15 proofs do not depend on the
bin-archive model.
-/
import MilaModel.Basic
import MilaModel.Model.Codec

namespace Mila.Fe9Arc

/-- `const MAGIC: u32 = 0x7061636B` ("pack"), fe9_arc.rs:10. -/
def MAGIC : Nat := 0x7061636B

/-- Ordered map `IndexMap<String, Vec<u8>>`. -/
abbrev Files := List (Str × Bytes)

/-- `IndexMap::insert`: an existing key keeps its position and gets the new value, a new key is
appended. -/
def imInsert (m : Files) (k : Str) (v : Bytes) : Files :=
  if m.any (fun p => p.1 = k) then m.map (fun p => if p.1 = k then (k, v) else p)
  else m ++ [(k, v)]

/-- `cursor.read_uN::<BigEndian>()` at `pos`: `k` bytes, `UnexpectedEof` unless they all fit.
Returns the value and the new position. -/
def readBe (raw : Bytes) (pos k : Nat) : Res (Nat × Nat) :=
  if pos + k ≤ raw.length then .ok (ofBe ((raw.drop pos).take k), pos + k) else .err .Eof

structure Entry where
  nameAddress : Nat
  fileAddress : Nat
  fileSizeUnpadded : Nat
  deriving Repr, DecidableEq

/-- `EntryMetadata::read`, fe9_arc.rs:106-116. -/
def readEntry (raw : Bytes) (pos : Nat) : Res (Entry × Nat) :=
  match readBe raw pos 4 with                       -- _unknown
  | .ok (_, p1) =>
    match readBe raw p1 4 with                      -- name_address
    | .ok (na, p2) =>
      match readBe raw p2 4 with                    -- file_address
      | .ok (fa, p3) =>
        match readBe raw p3 4 with                  -- file_size_unpadded
        | .ok (sz, p4) => .ok (⟨na, fa, sz⟩, p4)
        | .err e => .err e
        | .panic => .panic
      | .err e => .err e
      | .panic => .panic
    | .err e => .err e
    | .panic => .panic
  | .err e => .err e
  | .panic => .panic

/-- `for _ in 0..file_count { entry_metadata.push(EntryMetadata::read(&mut cursor)?) }`, :36-38. -/
def readEntries (raw : Bytes) : Nat → Nat → Res (List Entry)
  | 0, _ => .ok []
  | n + 1, pos =>
    match readEntry raw pos with
    | .ok (e, pos') =>
      match readEntries raw n pos' with
      | .ok es => .ok (e :: es)
      | .err er => .err er
      | .panic => .panic
    | .err er => .err er
    | .panic => .panic

/-- Bytes from the head of the list up to (excluding) the first 0; `none` when the buffer ends
first (`read_shift_jis_impl`, encoded_strings.rs:14-33, before decoding). -/
def cstrBytes : Bytes → Option Bytes
  | [] => none
  | b :: rest => if b = 0 then some [] else (cstrBytes rest).map (b :: ·)

/-- `cursor.set_position(pos); cursor.read_shift_jis_string()`. A position beyond the buffer
reads nothing, i.e. `UnterminatedString`. -/
def sjisAt (c : Codec) (raw : Bytes) (pos : Nat) : Res Str :=
  match cstrBytes (raw.drop pos) with
  | some s => .ok (c.dec s)
  | none => .err .Unterminated

/-- One iteration of the file loop, fe9_arc.rs:42-52. -/
def readFile (c : Codec) (raw : Bytes) (entries : Files) (e : Entry) : Res Files :=
  match sjisAt c raw e.nameAddress with             -- :43-44
  | .ok name =>
    let start := e.fileAddress                      -- :45
    let end_ := start + e.fileSizeUnpadded          -- :46 (two u32 values in usize: no overflow)
    if end_ ≤ raw.length then                       -- :47-50 raw.get(start..end) (start ≤ end)
      .ok (imInsert entries name ((raw.drop start).take e.fileSizeUnpadded))   -- :51
    else .err .TooSmall
  | .err er => .err er
  | .panic => .panic

def readFiles (c : Codec) (raw : Bytes) : Files → List Entry → Res Files
  | entries, [] => .ok entries
  | entries, e :: es =>
    match readFile c raw entries e with
    | .ok entries' => readFiles c raw entries' es
    | .err er => .err er
    | .panic => .panic

/-- `fe9_arc::parse`, fe9_arc.rs:19-54. -/
def parse (c : Codec) (raw : Bytes) : Res Files :=
  match readBe raw 0 4 with                         -- :23
  | .ok (magic, p) =>
    if magic ≠ MAGIC then .err .BadMagic else       -- :24-28 (fix D7)
    match readBe raw p 2 with                       -- :31
    | .ok (fileCount, _) =>
      match readEntries raw fileCount 0x8 with      -- :35-38
      | .ok metas => readFiles c raw [] metas       -- :41-53
      | .err e => .err e
      | .panic => .panic
    | .err e => .err e
    | .panic => .panic
  | .err e => .err e
  | .panic => .panic

/-! ### serialize -/

/-- `while (base + v.len()) % 32 != 0 { v.push(0) }`. -/
def padCount (total : Nat) : Nat := (32 - total % 32) % 32

/-- Name loop, fe9_arc.rs:63-69: state = `(raw_text, text_addresses)`. -/
def nameLoop (c : Codec) (headerLength : Nat) : Files → Bytes → List Nat → Res (Bytes × List Nat)
  | [], rawText, addrs => .ok (rawText, addrs)
  | kv :: rest, rawText, addrs =>
    let offset := headerLength + rawText.length                                -- :64
    match c.enc kv.1 with                                                      -- :66
    | none => .err .Encoding
    | some raw => nameLoop c headerLength rest (rawText ++ raw ++ [0]) (addrs ++ [offset])  -- :65,67,68

/-- File loop, fe9_arc.rs:78-85: state = `(next_file_address, raw_files, file_info)`;
`base = header_length + raw_text.len()`. -/
def fileLoop (base : Nat) : Files → Nat → Bytes → List (Nat × Nat) → Nat × Bytes × List (Nat × Nat)
  | [], next, rawFiles, info => (next, rawFiles, info)
  | kv :: rest, next, rawFiles, info =>
    let info' := info ++ [(next, kv.2.length)]                                 -- :79
    let rf := rawFiles ++ kv.2                                                 -- :80
    let rf := rf ++ List.replicate (padCount (base + rf.length)) 0             -- :81-83
    fileLoop base rest (base + rf.length) rf info'                             -- :84

/-- One 16-byte metadata record, fe9_arc.rs:94-98 (`as u32` truncations). -/
def entryBytes (textAddress : Nat) (fi : Nat × Nat) : Bytes :=
  [0, 0, 0, 0] ++ beBytes 4 (textAddress % 2 ^ 32) ++ beBytes 4 (fi.1 % 2 ^ 32)
    ++ beBytes 4 (fi.2 % 2 ^ 32)

/-- `fe9_arc::serialize`, fe9_arc.rs:56-103. -/
def serialize (c : Codec) (contents : Files) : Res Bytes :=
  let headerLength := 8 + contents.length * 0x10                               -- :57
  match nameLoop c headerLength contents [] [] with                            -- :61-69
  | .ok (rawText, textAddresses) =>
    let rawText := rawText ++ List.replicate (padCount (headerLength + rawText.length)) 0   -- :70-72
    let base := headerLength + rawText.length
    let (_, rawFiles, fileInfo) := fileLoop base contents base [] []           -- :75-85
    let head := beBytes 4 MAGIC ++ beBytes 2 (contents.length % 2 ^ 16) ++ [0, 0]   -- :89-92
    -- :93-99 `text_addresses[i]`, `file_info[i]` for i in 0..len (both have `len` elements)
    let table := (List.range contents.length).flatMap
      (fun i => entryBytes (textAddresses.getD i 0) (fileInfo.getD i (0, 0)))
    .ok (head ++ table ++ rawText ++ rawFiles)                                 -- :100-102
  | .err e => .err e
  | .panic => .panic

end Mila.Fe9Arc
