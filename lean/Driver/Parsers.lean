/- Driver family `parsers`: C05 — parser totality.  (stub: replace `family`) -/
import Driver.Common

namespace Driver.Parsers
open Mila

def family : Family where
  State := Unit
  init := ()
  step := fun _ _ _ => ((), "unimplemented", "FAIL unimplemented")

end Driver.Parsers
