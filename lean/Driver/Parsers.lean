/- Driver family `parsers`: C05 — parser totality.  See harness/src/fam/parsers.rs for the protocol. -/
import Driver.Common
import MilaModel.Model.Parsers
import MilaModel.Model.TextArchive
import MilaModel.Model.Fe9Arc
import MilaModel.Model.Arc
import MilaModel.Model.Aset
import MilaModel.Model.AssetBinary
import Driver.Aset
import Driver.Asset

namespace Driver.Parsers
open Mila Mila.BinArchive

def joinComma (l : List String) : String := String.intercalate "," l

/-- A decoded string is *clean* when the sub-codec decoded every byte (no U+FFFD emitted). -/
def hasReplacement : Bytes → Bool
  | 0xEF :: 0xBF :: 0xBD :: _ => true
  | _ :: rest => hasReplacement rest
  | [] => false

def tainted : Bytes → Bool
  | 0xFE :: 0xFF :: _ => true
  | 0xFF :: 0xFE :: _ => true
  | 0xEF :: 0xBB :: _ => true
  | _ :: rest => tainted rest
  | [] => false

structure Dump where
  clean : Bool
  text : String
  coarse : String

def sortByAddr {α : Type} (l : List (Nat × α)) : List (Nat × α) := l.mergeSort (fun x y => x.1 ≤ y.1)

def dumpBin (a : BinArchive) : Dump :=
  let size := a.size
  let text := sortByAddr (a.text.filter (fun p => p.1 + 4 ≤ size))
  let ptr := sortByAddr (a.pointers.filter (fun p => p.1 + 4 ≤ size))
  let labels := a.allLabels
  let clean := text.all (fun p => !hasReplacement p.2) && labels.all (fun p => !hasReplacement p.2)
  let t := joinComma (text.map (fun p => s!"{p.1}:{hexOfBytes p.2}"))
  let pt := joinComma (ptr.map (fun p => s!"{p.1}:{p.2}"))
  let lb := joinComma (labels.map (fun p => s!"{p.1}:{hexOfBytes p.2}"))
  { clean := clean
    text := s!"size={size} data={hexOfBytes a.data} text=[{t}] ptr=[{pt}] labels=[{lb}]"
    coarse := s!"size={size} ntext={text.length} nptr={ptr.length} nlabels={labels.length}" }

def classOf {α : Type} : Res α → String
  | .ok _ => "ok" | .err _ => "err" | .panic => "panic"

/-- Result of one entry point on one input: class, dump, re-serialisation class, sized requests. -/
structure Outcome where
  cls : String
  dump : Option Dump
  reser : String
  requests : List Nat

def runBin (e : Endian) (bytes : Bytes) : Outcome :=
  match parse sjisSub e bytes with
  | .ok a => { cls := "ok", dump := some (dumpBin a), reser := classOf (serialize sjisSub a),
               requests := Parsers.binRequests e bytes }
  | .err _ => { cls := "err", dump := none, reser := "-", requests := Parsers.binRequests e bytes }
  | .panic => { cls := "panic", dump := none, reser := "-", requests := [] }

def optClean : Option Bytes → Bool
  | some b => !hasReplacement b
  | none => true

def runText (f : TextFormat) (e : Endian) (bytes : Bytes) : Outcome :=
  let reqs := Parsers.binRequests e bytes
  match TextArchive.fromBytes sjisSub bytes f e with
  | .ok t =>
    let sj := f == .shiftJIS
    let clean := !hasReplacement t.title &&
      t.entries.all (fun p => !hasReplacement p.1 && (!sj || !hasReplacement p.2))
    let ents := joinComma (t.entries.map (fun p => s!"{hexOfBytes p.1}={hexOfBytes p.2}"))
    { cls := "ok", dump := some { clean := clean, text := s!"title={hexOfBytes t.title} entries=[{ents}]", coarse := "text" },
      reser := classOf (TextArchive.serialize sjisSub t), requests := reqs }
  | .err _ => { cls := "err", dump := none, reser := "-", requests := reqs }
  | .panic => { cls := "panic", dump := none, reser := "-", requests := [] }

def strLe (a b : String) : Bool := !(b < a)

def runArc (bytes : Bytes) : Outcome :=
  let reqs := Parsers.binRequests .little bytes
  -- the two arithmetic profiles agree (Props.C16.arc_profile_independent); the driver runs `checked`
  match Arc.fromBytes sjisSub .checked bytes with
  | .ok m =>
    let clean := m.all (fun p => !hasReplacement p.1)
    let items := (m.map (fun p => s!"{hexOfBytes p.1}={hexOfBytes p.2}")).mergeSort strLe
    { cls := "ok", dump := some { clean := clean, text := s!"files=[{joinComma items}]", coarse := "arc" },
      reser := "-", requests := reqs }
  | .err _ => { cls := "err", dump := none, reser := "-", requests := reqs }
  | .panic => { cls := "panic", dump := none, reser := "-", requests := [] }

def runPack (bytes : Bytes) : Outcome :=
  match Fe9Arc.parse sjisSub bytes with
  | .ok m =>
    let clean := m.all (fun p => !hasReplacement p.1)
    let items := m.map (fun p => s!"{hexOfBytes p.1}={hexOfBytes p.2}")
    { cls := "ok", dump := some { clean := clean, text := s!"files=[{joinComma items}]", coarse := "pack" },
      reser := classOf (Fe9Arc.serialize sjisSub m), requests := [] }
  | .err _ => { cls := "err", dump := none, reser := "-", requests := [] }
  | .panic => { cls := "panic", dump := none, reser := "-", requests := [] }

def runAset (bytes : Bytes) : Outcome :=
  let reqs := Parsers.binRequests .little bytes
  match (parse sjisSub .little bytes).bind Aset.fromArchive with
  | .ok f =>
    let clean := optClean f.metaStr && f.animClipTable.all optClean && f.sets.all (·.all optClean)
    { cls := "ok", dump := some { clean := clean, text := Driver.Aset.showFile f, coarse := s!"nsets={f.sets.length}" },
      reser := classOf (Aset.serialize sjisSub f), requests := reqs }
  | .err _ => { cls := "err", dump := none, reser := "-", requests := reqs }
  | .panic => { cls := "panic", dump := none, reser := "-", requests := [] }

def runAsset (bytes : Bytes) : Outcome :=
  let reqs := Parsers.binRequests .little bytes
  match (parse sjisSub .little bytes).bind Asset.fromArchive with
  | .ok b =>
    let clean := b.specs.all (fun s => optClean s.name && s.strs.all optClean)
    { cls := "ok", dump := some { clean := clean, text := Driver.Asset.showBinary b,
                                  coarse := s!"flags={b.flags} nspecs={b.specs.length}" },
      reser := classOf (Asset.serialize sjisSub b), requests := reqs }
  | .err _ => { cls := "err", dump := none, reser := "-", requests := reqs }
  | .panic => { cls := "panic", dump := none, reser := "-", requests := [] }

def runEntry (entry : String) (bytes : Bytes) : Option Outcome :=
  match entry with
  | "binLE" => some (runBin .little bytes)
  | "binBE" => some (runBin .big bytes)
  | "textSjisLE" => some (runText .shiftJIS .little bytes)
  | "textSjisBE" => some (runText .shiftJIS .big bytes)
  | "textUniLE" => some (runText .unicode .little bytes)
  | "textUniBE" => some (runText .unicode .big bytes)
  | "arc" => some (runArc bytes)
  | "pack" => some (runPack bytes)
  | "aset" => some (runAset bytes)
  | "asset" => some (runAsset bytes)
  | _ => none

def bound (len : Nat) : Nat := 256 * len + 65536

def render (o : Outcome) (taint : Bool) (len : Nat) : String :=
  let req := match o.requests.filter (fun r => r > bound len) with
    | [] => "ok"
    | r :: _ => s!"BIG:{r}"
  if o.cls == "panic" then s!"panic req={req} reser=-" else
  match o.dump with
  | none => s!"{o.cls} req={req} reser={o.reser}"
  | some d =>
    if d.clean && !taint then s!"{o.cls} req={req} reser={o.reser} clean {d.text}"
    else
      let rs := if o.reser == "panic" then "panic" else "np"
      s!"{o.cls} req={req} reser={rs} dirty {d.coarse}"

/-- The property judged on the implementation's line: never panic/abort, no oversized request,
accepted values re-serialise without panicking. -/
def oracle (impl : List String) : String :=
  let cls := impl.getD 1 ""
  if cls == "panic" then "FAIL the parser panicked"
  else if cls == "abort" then "FAIL the process aborted (allocation failure / stack overflow)"
  else if cls == "timeout" then "FAIL the parser did not return within 10 s (non-termination)"
  else if cls == "not-run" then "ok skip not run (earlier cases of this run did not terminate)"
  else if cls != "ok" && cls != "err" then s!"FAIL unexpected outcome {cls}"
  else if (impl.getD 2 "").startsWith "req=BIG" then
    s!"FAIL single allocation request {impl.getD 2 ""} exceeds 256*len+64KiB"
  else if impl.getD 3 "" == "reser=panic" then "FAIL re-serialising the accepted value panicked"
  else "ok"

def family : Family where
  State := Unit
  init := ()
  step := fun _ c i =>
    match c with
    | [_, "parse", entry, h] =>
      let bytes := hexOrBad h
      match runEntry entry bytes with
      | some o => ((), render o (tainted bytes) bytes.length, oracle i)
      | none => ((), "unmodelled-entry", "FAIL unmodelled entry")
    | _ => ((), "bad-case", "FAIL bad-case")

end Driver.Parsers
