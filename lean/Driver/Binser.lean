/- Driver family `binser`: C01 C02 — serialize / parse / canonical image.  (stub: replace `family`) -/
import Driver.Common

namespace Driver.Binser
open Mila

def family : Family where
  State := Unit
  init := ()
  step := fun _ _ _ => ((), "unimplemented", "FAIL unimplemented")

end Driver.Binser
