/- Driver family `binser`: C01 C02 — serialize / parse / canonical image.
Case lines are described in `harness/src/fam/binser.rs`. -/
import Driver.Common
import MilaModel.Model.BinArchive
import MilaModel.Spec.ArchiveImage

namespace Driver.Binser
open Mila Mila.BinArchive
open Mila.Spec.Image (Content conformsCheck canonical wordAt StrAt byAddr)

def listField (s : String) : List String := if s == "~" then [] else s.splitOn ","

def pairOf (s : String) : String × String :=
  match s.splitOn ":" with
  | [a, b] => (a, b)
  | [a] => (a, "")
  | _ => ("", "")

def natOf (s : String) : Nat := s.toNat?.getD 0

def parseStrings (s : String) : List (Nat × Bytes) :=
  (listField s).map (fun x => let p := pairOf x; (natOf p.1, hexOrBad p.2))
def parsePointers (s : String) : List (Nat × Nat) :=
  (listField s).map (fun x => let p := pairOf x; (natOf p.1, natOf p.2))
def parseLabels (s : String) : List (Nat × List Bytes) :=
  (listField s).map (fun x => let p := pairOf x
    (natOf p.1, if p.2.isEmpty then [] else (p.2.splitOn "|").map hexOrBad))
def parseCStrings (s : String) : List (Bytes × List Nat) :=
  (listField s).map (fun x => let p := pairOf x; (hexOrBad p.1, (p.2.splitOn "|").map natOf))

def endianOf (s : String) : Endian := if s == "BE" then .big else .little

def joinOrTilde (l : List String) : String := if l.isEmpty then "~" else ",".intercalate l

def fmtStrings (l : List (Nat × Bytes)) : String :=
  joinOrTilde (l.map (fun p => s!"{p.1}:{hexOfBytes p.2}"))
def fmtPointers (l : List (Nat × Nat)) : String :=
  joinOrTilde (l.map (fun p => s!"{p.1}:{p.2}"))

/-- Value of the `key=` field of an output line. -/
def fieldOf (fs : List String) (key : String) : Option String :=
  (fs.find? (fun f => f.startsWith (key ++ "="))).map (fun f => (f.drop (key.length + 1)).toString)

/-- The observation the harness prints for an archive (same accessors, same order). -/
def observe (c : Codec) (b : BinArchive) (cCells : List Nat) : String :=
  let size := b.size
  -- small archives: every address through the accessors, like the harness; large ones (the accessors
  -- recompute the size, which is quadratic on lists): the annotated cells, which is what the scan returns
  let viaAccessors := size ≤ 4096
  let addrs := if viaAccessors then (List.range size).filter (fun a => a + 4 ≤ size) else []
  let s := if viaAccessors then addrs.filterMap (fun a => match readString b a with
      | .ok (some t) => some (a, t) | _ => none)
    else (b.text.filter (fun p => p.1 + 4 ≤ size)).mergeSort byAddr
  let p := if viaAccessors then addrs.filterMap (fun a => match readPointer b a with
      | .ok (some t) => some (a, t) | _ => none)
    else (b.pointers.filter (fun p => p.1 + 4 ≤ size)).mergeSort byAddr
  let cs := cCells.map (fun a => match readCString c b a with
    | .ok (some t) => s!"{a}:{hexOfBytes t}"
    | .ok none => s!"{a}:none"
    | .err e => s!"{a}:!{e.name}"
    | .panic => s!"{a}:!panic")
  s!"size={size} data={hexOfBytes b.data} S={fmtStrings s} P={fmtPointers p} CS={joinOrTilde cs} L={fmtStrings (allLabels b)}"

def sortNats (l : List Nat) : List Nat := l.mergeSort (fun a b => a ≤ b)

/-! ### model -/

def modelSer (e : Endian) (K : Content) (cstr : List (Bytes × List Nat)) : String :=
  let a : BinArchive := ⟨K.data, K.strings, K.pointers, K.labels, cstr, e⟩
  let a' : BinArchive := ⟨K.data, K.strings.reverse, K.pointers.reverse, K.labels.reverse, cstr.reverse, e⟩
  let r := serialize sjisSub a
  let cCells : List Nat := sortNats (cstr.flatMap (fun (p : Bytes × List Nat) => p.2))
  let det := if serialize sjisSub a' = r then "1" else "0"
  match r with
  | .err er => s!"err {er.name} det={det}"
  | .panic => "panic"
  | .ok img =>
    let tail := match parse sjisSub e img with
      | .err er => s!"parse-err {er.name}"
      | .panic => "parse-panic"
      | .ok b =>
        let re := if serialize sjisSub b = Res.ok img then "1" else "0"
        s!"re={re} {observe sjisSub b cCells}"
    s!"ok img={hexOfBytes img} det={det} {tail}"

/-- `true` when the byte string contains U+FFFD (what `sjisSub.dec` emits outside its alphabet). -/
def hasReplacement : Bytes → Bool
  | 0xEF :: 0xBF :: 0xBD :: _ => true
  | _ :: rest => hasReplacement rest
  | [] => false

def foreignText (b : BinArchive) : Bool :=
  b.text.any (fun p => hasReplacement p.2) || b.labels.any (fun p => p.2.any hasReplacement)

def modelImg (raw : Bool) (e : Endian) (img : Bytes) : String :=
  match parse sjisSub e img with
  | .err er => s!"err {er.name}"
  | .panic => "panic"
  | .ok b =>
    if raw && foreignText b then "ok foreign-text" else
    let re := match serialize sjisSub b with
      | .ok v => hexOfBytes v
      | .err er => s!"!{er.name}"
      | .panic => "!panic"
    s!"ok re={re} {observe sjisSub b []}"

/-! ### oracle: the specification judged on the implementation's output -/

def expectedLabels (K : Content) : String :=
  fmtStrings ((K.labels.mergeSort byAddr).flatMap (fun p => p.2.map (fun n => (p.1, n))))

/-- Same bytes outside annotated cells (one pass over both lists). -/
def agreeFrom (K : Content) : Nat → Bytes → Bytes → Bool
  | _, [], [] => true
  | i, x :: xs, y :: ys => (x == y || decide (K.covered i)) && agreeFrom K (i + 1) xs ys
  | _, _, _ => false

def dataAgrees (K : Content) (d : Bytes) : Bool := agreeFrom K 0 d K.data

/-- Judgement of the re-parsed observation against the content `K` (c-string cells listed). -/
def judgeObservation (K : Content) (cexp : List (Nat × Bytes)) (impl : List String) : Option String :=
  let get := fun k => (fieldOf impl k).getD "?"
  if get "size" != toString K.data.length then some "re-parsed size differs" else
  if ¬ dataAgrees K (hexOrBad (get "data")) then some "re-parsed raw bytes differ outside pointer cells" else
  if get "S" != fmtStrings (K.strings.mergeSort byAddr) then some "re-parsed strings differ" else
  if get "P" != fmtPointers (K.pointers.mergeSort byAddr) then some "re-parsed pointers differ" else
  if get "CS" != fmtStrings (cexp.mergeSort byAddr) then some "re-parsed c-strings differ" else
  if get "L" != expectedLabels K then some "re-parsed labels differ (per-address order)" else none

def enc := sjisSub.enc

/-- Every string of the case is encodable (the property's domain). -/
def inDomain (K : Content) (cstr : List (Bytes × List Nat)) : Bool :=
  K.strings.all (fun p => (enc p.2).isSome) && K.labels.all (fun p => p.2.all (fun n => (enc n).isSome))
    && cstr.all (fun p => (enc p.1).isSome)

/-- U+00A5 / U+203E / U+2212 (UTF-8 `C2 A5`, `E2 80 BE`, `E2 88 92`): encodable but folded by the
codec, outside the property's quantifier. -/
def hasLossy : Bytes → Bool
  | 0xC2 :: 0xA5 :: _ => true
  | 0xE2 :: 0x80 :: 0xBE :: _ => true
  | 0xE2 :: 0x88 :: 0x92 :: _ => true
  | _ :: rest => hasLossy rest
  | [] => false

def lossyCase (K : Content) (cstr : List (Bytes × List Nat)) : Bool :=
  K.strings.any (fun p => hasLossy p.2) || K.labels.any (fun p => p.2.any hasLossy)
    || cstr.any (fun p => hasLossy p.1)

/-- The content the image denotes when it carries a c-string pool: data region of the image,
one pointer per c-string use (read from the image). -/
def contentOfImage (e : Endian) (K : Content) (cstr : List (Bytes × List Nat)) (img : Bytes) (d : Nat) :
    Content × List (Nat × Bytes) :=
  let region := (img.drop 0x20).take d
  let pool := region.drop K.data.length
  let cuses := cstr.flatMap (fun p => p.2.map (fun a => (a, p.1)))
  let cptrs := cuses.map (fun u => (u.1, (wordAt e img (0x20 + u.1)).getD 0))
  (⟨K.data ++ pool, K.strings, K.pointers ++ cptrs, K.labels⟩, cuses)

def oracleSer (e : Endian) (K : Content) (cstr : List (Bytes × List Nat)) (impl : List String) : String :=
  if lossyCase K cstr then "ok skip (lossy code point, outside the quantifier)" else
  if !inDomain K cstr then
    -- a string the codec cannot encode: `err` is fine; but whatever `serialize` accepts must
    -- re-parse to exactly the content that was written
    if impl.getD 1 "" == "panic" then "FAIL panic" else
    if impl.getD 1 "" != "ok" then "ok skip (unencodable string rejected)" else
    match (fieldOf impl "img").bind bytesOfHex with
    | none => "FAIL serialize accepted a content it cannot represent (no image)"
    | some img =>
      if impl.contains "parse-err" then
        "FAIL serialize accepted a content it cannot represent (the image does not re-parse)" else
      let d := (wordAt e img 4).getD 0
      let (K', cuses) := contentOfImage e K cstr img d
      match judgeObservation K' cuses impl with
      | some why => "FAIL serialize accepted a content it cannot represent: " ++ why
      | none => "ok"
  else
  if impl.getD 1 "" != "ok" then "FAIL serialize did not succeed on an in-domain archive" else
  match (fieldOf impl "img").bind bytesOfHex with
  | none => "FAIL no image"
  | some img =>
    if fieldOf impl "det" != some "1" then "FAIL serialization is not deterministic (images differ between call orders / hash states)" else
    if impl.contains "parse-err" then "FAIL from_bytes rejects the serialized image" else
    match wordAt e img 4 with
    | none => "FAIL image shorter than a header"
    | some d =>
      if d < K.data.length ∨ 0x20 + d > img.length then "FAIL header data size" else
      let region := (img.drop 0x20).take d
      if cstr.isEmpty ∧ d ≠ K.data.length then "FAIL data grew without c-strings" else
      if K.data.length % 4 = 0 ∧ d % 4 ≠ 0 then "FAIL tables not word-aligned although the data is" else
      -- every c-string cell points into the pool, at its NUL-terminated encoding
      let (K', cuses) := contentOfImage e K cstr img d
      let cok := cuses.all (fun u =>
        match wordAt e img (0x20 + u.1), enc u.2 with
        | some p, some b => decide (K.data.length ≤ p) && decide (StrAt region p b)
        | _, _ => false)
      if ¬ cok then "FAIL c-string cell does not point at its string inside the pool" else
      match conformsCheck enc e img K' with
      | some why => "FAIL image does not conform: " ++ why
      | none =>
        if cstr.isEmpty ∧ img ≠ canonical enc e K then "FAIL image is not the canonical image" else
        match judgeObservation K' cuses impl with
        | some why => "FAIL " ++ why
        | none =>
          if fieldOf impl "re" != some "1" then "FAIL parse then serialize does not reproduce the image"
          else "ok"

def oracleImg (e : Endian) (img : Bytes) (K : Content) (impl : List String) : String :=
  match conformsCheck enc e img K with
  | some why => "FAIL spec-side generator produced a non-conforming image: " ++ why
  | none =>
    if impl.getD 1 "" != "ok" then "FAIL from_bytes rejects a conforming image" else
    match judgeObservation K [] impl with
    | some why => "FAIL " ++ why
    | none =>
      if fieldOf impl "re" != some (hexOfBytes (canonical enc e K)) then
        "FAIL re-serialized image is not the canonical image of the content"
      else "ok"

/-! ### structured large contents (`big`): closed-form reference

The list-based model and `canonical` are quadratic; for archives with more than 2^16 entries the
driver uses a closed form of `canonical` for the structured family the harness builds (`np`
pointer cells, `ns` string cells over `m` distinct strings, `nl` ascending single-name labels).
On small instances the closed form is compared with the general `canonical` and with the model
(`FAIL closed form …` would be a driver bug), which ties it to the specification. -/

def bigSName (j : Nat) : Bytes :=
  [0x73, UInt8.ofNat (97 + j % 26), UInt8.ofNat (97 + j / 26 % 26), UInt8.ofNat (97 + j / 676 % 26),
   UInt8.ofNat (97 + j / 17576 % 26)]

def bigLName (t : Nat) : Bytes :=
  [0x4C, UInt8.ofNat (97 + t / 456976 % 26), UInt8.ofNat (97 + t / 17576 % 26),
   UInt8.ofNat (97 + t / 676 % 26), UInt8.ofNat (97 + t / 26 % 26), UInt8.ofNat (97 + t % 26)]

def pushHexByte (s : String) (b : Nat) : String :=
  (s.push (hexDigit (b / 16 % 16))).push (hexDigit (b % 16))

def pushHexWord (e : Endian) (s : String) (v : Nat) : String :=
  match e with
  | .little => pushHexByte (pushHexByte (pushHexByte (pushHexByte s (v % 256)) (v / 256 % 256))
      (v / 65536 % 256)) (v / 16777216 % 256)
  | .big => pushHexByte (pushHexByte (pushHexByte (pushHexByte s (v / 16777216 % 256))
      (v / 65536 % 256)) (v / 256 % 256)) (v % 256)

def pushHexBytes (s : String) (l : Bytes) : String := l.foldl (fun s b => pushHexByte s b.toNat) s

def fnv64 (s : String) : UInt64 :=
  s.toUTF8.foldl (fun h b => (h ^^^ b.toUInt64) * 0x100000001b3) 0xcbf29ce484222325

def hex64 (v : UInt64) : String := Id.run do
  let mut s := ""
  for i in [0:16] do
    s := s.push (hexDigit ((v.toNat / 16 ^ (15 - i)) % 16))
  return s

structure BigRef where
  img : String
  obs : String

def bigRef (e : Endian) (np ns m nl : Nat) : BigRef := Id.run do
  let size := 4 * (np + ns) + 2
  let nptr := np + ns
  let textStart := size + 4 * nptr + 8 * nl
  let d := min m ns
  let total := 0x20 + textStart + 7 * nl + 6 * d
  -- data block (every cell annotated, two raw tail bytes)
  let mut dat := ""
  for k in [0:np] do dat := pushHexWord e dat (size - 4 * k)
  for i in [0:ns] do dat := pushHexWord e dat (textStart + 7 * nl + 6 * (i % m))
  dat := pushHexByte dat (((size - 2) * 7 + 3) % 256)
  dat := pushHexByte dat (((size - 1) * 7 + 3) % 256)
  let mut s := ""
  s := pushHexWord e s total
  s := pushHexWord e s size
  s := pushHexWord e s nptr
  s := pushHexWord e s nl
  for _ in [0:16] do s := pushHexByte s 0
  s := s ++ dat
  -- pointer table: pointer cells ascending, then string cells grouped by string in first-use order
  for k in [0:np] do s := pushHexWord e s (4 * k)
  for j in [0:d] do
    for r in [0:(ns - j + m - 1) / m] do s := pushHexWord e s (4 * (np + (j + r * m)))
  -- label table and text section
  for t in [0:nl] do
    s := pushHexWord e s t
    s := pushHexWord e s (7 * t)
  for t in [0:nl] do s := pushHexByte (pushHexBytes s (bigLName t)) 0
  for j in [0:d] do s := pushHexByte (pushHexBytes s (bigSName j)) 0
  -- the observation the harness prints for the re-parsed archive
  let mut o := s!"size={size} data={dat} S="
  if ns = 0 then o := o ++ "~"
  for i in [0:ns] do
    o := (if i = 0 then o else o.push ',') ++ toString (4 * (np + i)) ++ ":"
    o := pushHexBytes o (bigSName (i % m))
  o := o ++ " P="
  if np = 0 then o := o ++ "~"
  for k in [0:np] do
    o := (if k = 0 then o else o.push ',') ++ toString (4 * k) ++ ":" ++ toString (size - 4 * k)
  o := o ++ " CS=~ L="
  if nl = 0 then o := o ++ "~"
  for t in [0:nl] do
    o := (if t = 0 then o else o.push ',') ++ toString t ++ ":"
    o := pushHexBytes o (bigLName t)
  return ⟨s, o⟩

/-- The same content as explicit lists (small instances only). -/
def bigContent (np ns m nl : Nat) : Content :=
  let size := 4 * (np + ns) + 2
  ⟨(List.range size).map (fun i => UInt8.ofNat ((i * 7 + 3) % 256)),
   (List.range ns).map (fun i => (4 * (np + i), bigSName (i % m))),
   (List.range np).map (fun k => (4 * k, size - 4 * k)),
   (List.range nl).map (fun t => (t, [bigLName t]))⟩

def stepBig (e : Endian) (np ns m nl : Nat) (impl : List String) : String × String :=
  if m = 0 ∨ nl > 4 * (np + ns) + 3 then ("bad-case", "FAIL bad-case") else
  let r := bigRef e np ns m nl
  let model := s!"ok img={r.img} det=1 re=1 obs={hex64 (fnv64 r.obs)}"
  -- small instances: the closed form must be the specification's canonical image and the model's image
  let selfCheck : Option String :=
    if np + ns + nl ≤ 60 then
      let K := bigContent np ns m nl
      let a : BinArchive := ⟨K.data, K.strings.reverse, K.pointers, K.labels.reverse, [], e⟩
      if hexOfBytes (canonical enc e K) != r.img then some "FAIL closed form differs from canonical (driver)"
      else if (serialize sjisSub a).map hexOfBytes != Res.ok r.img then
        some "FAIL closed form differs from the model (driver)"
      else none
    else none
  let oracle := match selfCheck with
    | some w => w
    | none =>
      if impl.getD 1 "" != "ok" then "FAIL serialize did not succeed on an in-domain archive" else
      if fieldOf impl "img" != some r.img then
        "FAIL image is not the canonical image (pointer table not grouped by string in first-use order, or other bytes differ)" else
      if fieldOf impl "det" != some "1" then "FAIL serialization is not deterministic" else
      if impl.contains "parse-err" then "FAIL from_bytes rejects the serialized image" else
      if fieldOf impl "re" != some "1" then "FAIL parse then serialize does not reproduce the image" else
      if fieldOf impl "obs" != some (hex64 (fnv64 r.obs)) then "FAIL re-parsed content differs" else "ok"
  (model, oracle)

def faithfulExpected : String := "ok encodable=7520 lossy=a5,203e,2212 nul=0 disjoint=1"

def family : Family where
  State := Unit
  init := ()
  step := fun _ c i =>
    match c with
    | [_, "codec", s] =>
      let s := hexOrBad s
      let m := match sjisSub.enc s with
        | none => "err Encoding"
        | some b => s!"ok {hexOfBytes b} {hexOfBytes (sjisSub.dec b)}"
      ((), m, if i.getD 1 "" == "ok" && i.getD 3 "" == hexOfBytes s then "ok"
              else "FAIL the codec does not represent the string losslessly")
    | [_, "decode", b] => ((), s!"ok {hexOfBytes (sjisSub.dec (hexOrBad b))}", "ok")
    | [_, "faithful"] =>
      ((), faithfulExpected,
        if " ".intercalate (i.drop 1) == faithfulExpected then "ok"
        else "FAIL the Faithful assumption on Shift-JIS no longer holds")
    | [_, "ser", e, d, s, p, l, cs] =>
      let K : Content := ⟨hexOrBad d, parseStrings s, parsePointers p, parseLabels l⟩
      let cstr := parseCStrings cs
      ((), (if lossyCase K cstr then "ok lossy-skip" else modelSer (endianOf e) K cstr),
        oracleSer (endianOf e) K cstr i)
    | [_, "serp", e, d, s, p, l, cs] =>
      let K : Content := ⟨hexOrBad d, parseStrings s, parsePointers p, parseLabels l⟩
      let cstr := parseCStrings cs
      let o := oracleSer (endianOf e) K cstr i
      ((), modelSer (endianOf e) K cstr ++ " procs=1",
        if o != "ok" then o
        else if fieldOf i "procs" != some "1" then
          "FAIL serialization differs between fresh processes (per-process hash seeds)"
        else "ok")
    | [_, "big", e, np, ns, m, nl] =>
      let r := stepBig (endianOf e) (natOf np) (natOf ns) (natOf m) (natOf nl) i
      ((), r.1, r.2)
    | [_, "img", e, img, d, s, p, l] =>
      let K : Content := ⟨hexOrBad d, parseStrings s, parsePointers p, parseLabels l⟩
      let img := hexOrBad img
      ((), modelImg false (endianOf e) img, oracleImg (endianOf e) img K i)
    | [_, "raw", e, img] => ((), modelImg true (endianOf e) (hexOrBad img), "ok skip")
    | _ => ((), "bad-case", "FAIL bad-case")

end Driver.Binser
