/- Driver family `binops`: C03 C04 — archive operation histories.  (stub: replace `family`) -/
import Driver.Common

namespace Driver.Binops
open Mila

def family : Family where
  State := Unit
  init := ()
  step := fun _ _ _ => ((), "unimplemented", "FAIL unimplemented")

end Driver.Binops
