/- Driver family `binops`: C03 C04 — archive operation histories.
   Model side: `Sys.step` of `Model/BinOps.lean`, printed in the harness' canonical form.
   Oracle side: `Driver/BinopsOracle.lean` (specification judged on the implementation's lines). -/
import Driver.Common
import Driver.BinopsOracle
import MilaModel.Model.BinOps

namespace Driver.Binops
open Mila Mila.BinArchive

/-! ### parsing case lines -/

def tyOf : String → Option Ty
  | "u8" => some .u8 | "u16" => some .u16 | "u32" => some .u32 | "i8" => some .i8
  | "i16" => some .i16 | "i32" => some .i32 | "f32" => some .f32 | _ => none

def optStrOf (s : String) : Option Str := if s == "~" then none else some (hexOrBad s)
def optNatOf (s : String) : Option Nat := if s == "~" then none else s.toNat?
def labelsOf (s : String) : List Str := if s == "!" then [] else (s.splitOn "/").map hexOrBad

def parseOp (f : List String) : Option Op :=
  let n (s : String) : Nat := s.toNat?.getD 0
  let b (s : String) : Bool := s == "1"
  match f with
  | ["alloc_end", x] => some (.allocEnd (n x))
  | ["allocate", a, x, g] => some (.allocate (n a) (n x) (b g))
  | ["deallocate", a, x, g] => some (.deallocate (n a) (n x) (b g))
  | ["truncate", a] => some (.truncate (n a))
  | ["r_bytes", a, x] => some (.readBytes (n a) (n x))
  | ["w_bytes", a, v] => some (.writeBytes (n a) (hexOrBad v))
  | ["r_str", a] => some (.readStr (n a))
  | ["r_ptr", a] => some (.readPtr (n a))
  | ["r_labels", a] => some (.readLabels (n a))
  | ["r_cstr", a] => some (.readCStr (n a))
  | ["w_str", a, v] => some (.writeStr (n a) (optStrOf v))
  | ["w_ptr", a, v] => some (.writePtr (n a) (optNatOf v))
  | ["w_cstr", a, v] => some (.writeCStr (n a) (hexOrBad v))
  | ["w_label", a, v] => some (.writeLabel (n a) (hexOrBad v))
  | ["w_labels", a, v] => some (.writeLabels (n a) (labelsOf v))
  | ["d_str", a] => some (.delStr (n a))
  | ["d_ptr", a] => some (.delPtr (n a))
  | ["d_labels", a] => some (.delLabels (n a))
  | ["d_label", a, i] => some (.delLabel (n a) (n i))
  | ["find", s] => some (.find (hexOrBad s))
  | ["ptr_dests"] => some .ptrDests
  | ["get_labels"] => some .getLabels
  | ["R_seek", p] => some (.rSeek (n p))
  | ["R_skip", x] => some (.rSkip (n x))
  | ["R_tell"] => some .rTell
  | ["R_bytes", x] => some (.rBytes (n x))
  | ["R_str"] => some .rStr
  | ["R_ptr"] => some .rPtr
  | ["R_cstr"] => some .rCStr
  | ["R_label", i] => some (.rLabel (n i))
  | ["R_labels"] => some .rLabels
  | ["R_sjis"] => some .rSjis
  | ["W_seek", p] => some (.wSeek (n p))
  | ["W_skip", x] => some (.wSkip (n x))
  | ["W_tell"] => some .wTell
  | ["W_size"] => some .wSize
  | ["W_bytes", v] => some (.wBytes (hexOrBad v))
  | ["W_str", v] => some (.wStr (optStrOf v))
  | ["W_ptr", v] => some (.wPtr (optNatOf v))
  | ["W_cstr", v] => some (.wCStr (hexOrBad v))
  | ["W_label", v] => some (.wLabel (hexOrBad v))
  | ["W_alloc", x, g] => some (.wAlloc (n x) (b g))
  | ["W_alloc_end", x] => some (.wAllocEnd (n x))
  | [op, a] =>
    if op.startsWith "r_" then (tyOf (op.drop 2).toString).map (fun t => .read t (n a))
    else if op.startsWith "W_" then (tyOf (op.drop 2).toString).map (fun t => .wWrite t (a.toInt?.getD 0))
    else none
  | [op, a, v] =>
    if op.startsWith "w_" then (tyOf (op.drop 2).toString).map (fun t => .write t (n a) (v.toInt?.getD 0))
    else none
  | [op] =>
    if op.startsWith "R_" then (tyOf (op.drop 2).toString).map (fun t => .rRead t) else none
  | _ => none

/-- String-carrying hex fields must be well-formed hex of valid UTF-8 (mirror of `strings_ok` in the
harness). -/
def utf8Ok (s : String) : Bool :=
  s == "-" || (match bytesOfHex s with
    | some b => (String.fromUTF8? (ByteArray.mk b.toArray)).isSome
    | none => false)

def stringsOk (f : List String) : Bool :=
  match f with
  | [op, _, v] =>
    if op == "w_str" || op == "w_cstr" || op == "w_label" then v == "~" || utf8Ok v
    else if op == "w_labels" then v == "!" || (v.splitOn "/").all utf8Ok
    else true
  | [op, v] =>
    if op == "find" || op == "W_str" || op == "W_cstr" || op == "W_label" then v == "~" || utf8Ok v else true
  | _ => true

/-! ### printing (must reproduce `state_str` / `exec` of harness/src/fam/binops.rs) -/

def joinOr (sep : String) (l : List String) : String := if l.isEmpty then "-" else sep.intercalate l

def bucketStr (b : List Str) : String :=
  if b.isEmpty then "!" else "/".intercalate (b.map hexOfBytes)

def sortByKey {α : Type} (l : List (Nat × α)) : List (Nat × α) := l.mergeSort (fun x y => x.1 ≤ y.1)

/-- strict-then-equal lexicographic order of Rust `String` (UTF-8 bytes). -/
def stateStr (s : Sys) : String :=
  let a := s.arch
  let size := a.size
  let text := (sortByKey (a.text.filter (fun p => p.1 + 4 ≤ size))).map
    (fun p => toString p.1 ++ ":" ++ hexOfBytes p.2)
  let ptr := (sortByKey (a.pointers.filter (fun p => p.1 + 4 ≤ size))).map
    (fun p => toString p.1 ++ ":" ++ toString p.2)
  let labels := (sortByKey (a.labels.filter (fun p => p.1 + 4 ≤ size || !p.2.isEmpty))).map
    (fun p => toString p.1 ++ ":" ++ bucketStr p.2)
  let cstr := (a.cstrings.mergeSort (fun x y => bytesLe x.1 y.1)).map
    (fun p => hexOfBytes p.1 ++ ":" ++ "/".intercalate (p.2.map toString))
  "size=" ++ toString size ++ " data=" ++ hexOfBytes a.data ++ " text=" ++ joinOr "," text
    ++ " ptr=" ++ joinOr "," ptr ++ " labels=" ++ joinOr ";" labels ++ " cstr=" ++ joinOr ";" cstr
    ++ " r=" ++ toString s.rpos ++ " w=" ++ toString s.wpos

def hasRepl : Bytes → Bool
  | 0xEF :: 0xBF :: 0xBD :: _ => true
  | _ :: rest => hasRepl rest
  | [] => false

/-- Decoded Shift-JIS text, or `dirty` when it leaves the executable sub-codec. -/
def decStr (raw : Bytes) : String :=
  let d := Sjis.dec raw
  if hasRepl d then "dirty" else hexOfBytes d

def outStr : Out → String
  | .unit => "ok"
  | .int v => "ok " ++ toString v
  | .nat v => "ok " ++ toString v
  | .two x y => "ok " ++ toString x ++ " " ++ toString y
  | .bytes b => "ok " ++ hexOfBytes b
  | .optStr none => "ok ~"
  | .optStr (some s) => "ok " ++ hexOfBytes s
  | .optRaw none => "ok ~"
  | .optRaw (some s) => "ok " ++ decStr s
  | .raw s => "ok " ++ decStr s
  | .optNat none => "ok ~"
  | .optNat (some v) => "ok " ++ toString v
  | .optLabels none => "ok ~"
  | .optLabels (some b) => "ok " ++ bucketStr b
  | .nats l => "ok " ++ joinOr "," ((l.mergeSort (fun x y => x ≤ y)).map toString)
  | .pairs l => "ok " ++ joinOr "," (l.map (fun p => toString p.1 ++ ":" ++ hexOfBytes p.2))
  | .skipOverflow => "skipov"

def resOut : Res Out → String
  | .ok o => outStr o
  | .err e => "err " ++ e.name
  | .panic => "panic"

def colon (s : String) : String := s.replace " " ":"

/-- The read-back the harness performs after a successful typed / byte write. -/
def readBack (before after : Sys) : Op → String
  | .write t addr _ => " rb=" ++ colon (resOut ((after.arch.readTy t addr).map .int))
  | .wWrite t _ => " rb=" ++ colon (resOut ((after.arch.readTy t before.wpos).map .int))
  | .writeBytes addr v => " rb=" ++ colon (resOut ((after.arch.readBytes addr v.length).map .bytes))
  | _ => ""

structure St where
  id : String
  sys : Sys
  obs : Option Oracle.Obs     -- the implementation's previous printed state
  big : Bool

def family : Family where
  State := Option St
  init := none
  step := fun st c i =>
    match c with
    | [id, "new", e] =>
      let big := e == "BE"
      let sys := Sys.init (if big then .big else .little)
      let obs := Oracle.parseObs i
      (some ⟨id, sys, obs, big⟩, "ok | " ++ stateStr sys, Oracle.judgeNew obs)
    | id :: opf =>
      match st with
      | some s =>
        if s.id != id then (st, "nostate", "FAIL nostate") else
        if !stringsOk opf then
          -- a line the shrinker mangled (string field no longer UTF-8): not executed by the harness
          (some { s with obs := Oracle.parseObs i }, "badutf8 | " ++ stateStr s.sys, "ok skip malformed case line")
        else
        match parseOp opf with
        | none => (st, "badop", "FAIL badop")
        | some op =>
          let (sys', r) := s.sys.step op
          let rb := match r with
            | .ok _ => readBack s.sys sys' op
            | _ => ""
          let obs' := Oracle.parseObs i
          let verdict := Oracle.judge s.big s.obs obs' op i
          (some { s with sys := sys', obs := obs' }, resOut r ++ rb ++ " | " ++ stateStr sys', verdict)
      | none => (st, "nostate", "FAIL nostate")
    | _ => (st, "bad-case", "FAIL bad-case")

end Driver.Binops
