/- Driver family `arc`: C16 — 3DS arc extraction.
   Case / output formats: see `harness/src/fam/arc.rs`. -/
import Driver.Common
import MilaModel.Model.Arc
import MilaModel.Spec.ArcImage

namespace Driver.Arc
open Mila
open Mila.Spec.Arc (Content u32le LowestLabel NoLabel ConformsArcAt DistinctNames RecordAt RangeLeaves padding)

/-- Lexicographic `≤` on byte strings (Rust `String` ordering = UTF-8 byte order). -/
def bytesLe : Bytes → Bytes → Bool
  | [], _ => true
  | _ :: _, [] => false
  | x :: xs, y :: ys => if x < y then true else if y < x then false else bytesLe xs ys

def sortByName (m : List (Bytes × Bytes)) : List (Bytes × Bytes) :=
  m.mergeSort (fun a b => bytesLe a.1 b.1)

def filesStr (m : List (Bytes × Bytes)) : String :=
  m.foldl (fun s kv => s ++ " " ++ hexOfBytes kv.1 ++ " " ++ hexOfBytes kv.2) (toString m.length)

/-- `?` when a name lies outside the sub-codec alphabet (damaged images only). -/
def parsedStr (m : List (Bytes × Bytes)) : String :=
  if m.all (fun kv => (sjisSub.enc kv.1).isSome) then filesStr (sortByName m) else "?"

def errClass : Err → String
  | .NoCount => "NoCount" | .NoInfo => "NoInfo" | .MissingName => "MissingName"
  | .OutOfBounds => "OutOfBounds" | _ => "Other"

def modelStr : Res (List (Bytes × Bytes)) → String
  | .ok m => "ok " ++ parsedStr m
  | .err e => "err " ++ errClass e
  | .panic => "panic"

/-- `<k> (<a> <b>)*` followed by the rest of the fields. -/
def takePairs {α β : Type} (fa : String → Option α) (fb : String → Option β) :
    List String → Option (List (α × β) × List String)
  | [] => none
  | n :: rest =>
    let rec go : Nat → List String → Option (List (α × β) × List String)
      | 0, tl => some ([], tl)
      | k + 1, a :: b :: tl => do
        let x ← fa a
        let y ← fb b
        let (r, tl') ← go k tl
        pure ((x, y) :: r, tl')
      | _ + 1, _ => none
    match n.toNat? with
    | some k => go k rest
    | none => none

structure Case where
  profile : Profile
  img : Bytes
  expect : String
  padded : Bool
  countAddr : Nat
  infoAddr : Nat
  K : Content
  files : List (Bytes × Bytes)

def parseCase : List String → Option Case
  | id :: "arc" :: imgHex :: expect :: padded :: ca :: ia :: "D" :: dataHex :: "S" :: rest => do
    -- the case id names the arithmetic profile of the harness binary: `c16c.…` / `c16w.…`
    let p ← (if id.startsWith "c16c." then some Profile.checked else if id.startsWith "c16w." then some Profile.wrapping else none)
    let img ← bytesOfHex imgHex
    let data ← bytesOfHex dataHex
    let ca ← ca.toNat?
    let ia ← ia.toNat?
    let (strings, rest) ← takePairs String.toNat? bytesOfHex rest
    match rest with
    | "L" :: rest =>
      let (labels, rest) ← takePairs String.toNat? bytesOfHex rest
      match rest with
      | "F" :: rest =>
        let (files, rest) ← takePairs bytesOfHex bytesOfHex rest
        if rest.isEmpty then
          pure ⟨p, img, expect, padded == "1", ca, ia, ⟨data, strings, labels⟩, files⟩
        else none
      | _ => none
    | _ => none
  | _ => none

/-- Premises shared by the `MissingName` and `OutOfRange` expectations: both labels at their lowest
addresses, first word readable, count word = number of records. -/
def tablePremise (cs : Case) : Bool :=
  decide (LowestLabel cs.K Spec.Arc.COUNT cs.countAddr) && decide (LowestLabel cs.K Spec.Arc.INFO cs.infoAddr)
    && (u32le cs.K.data 0).isSome && u32le cs.K.data cs.countAddr == some cs.files.length

/-- Record `i` is readable: a string cell and three words inside the data. -/
def recordReadable (cs : Case) (i : Nat) : Bool :=
  cs.K.strings.any (fun s => s.1 == cs.infoAddr + 16 * i) && (u32le cs.K.data (cs.infoAddr + 16 * i + 12)).isSome

/-- The header decision of the format: padding applies iff the first data word is 0. -/
def padOf (cs : Case) : Nat := if u32le cs.K.data 0 == some 0 then 0x60 else 0

def missingNamePremise (cs : Case) : Bool :=
  tablePremise cs &&
  (List.range cs.files.length).any (fun i =>
    !cs.K.strings.any (fun s => s.1 == cs.infoAddr + 16 * i) && cs.infoAddr + 16 * i + 4 ≤ cs.K.data.length
      && (List.range i).all (recordReadable cs))

def rangeOf (cs : Case) (i : Nat) : Nat × Nat :=
  ((u32le cs.K.data (cs.infoAddr + 16 * i + 12)).getD 0 + padOf cs, (u32le cs.K.data (cs.infoAddr + 16 * i + 8)).getD 0)

def outOfRangePremise (cs : Case) : Bool :=
  tablePremise cs && (List.range cs.files.length).all (recordReadable cs) &&
  (List.range cs.files.length).any (fun i =>
    let (start, size) := rangeOf cs i
    decide (RangeLeaves cs.K start size))

def oracle (cs : Case) (impl : List String) : String :=
  let out := impl.drop 1
  if out == ["panic"] then "FAIL panic" else
  match cs.expect with
  | "ok" =>
    if !decide (DistinctNames cs.files) then "ok skip duplicate-names" else
    if !decide (ConformsArcAt cs.K cs.files cs.padded cs.countAddr cs.infoAddr) then
      "FAIL generator: content does not conform to the arc layout"
    else if out == ("ok " ++ filesStr (sortByName cs.files)).splitOn " " then "ok"
    else "FAIL extracted files differ from the packed files"
  | "NoCount" =>
    if !decide (NoLabel cs.K Spec.Arc.COUNT) then "FAIL generator: Count label present"
    else if out == ["err", "NoCount"] then "ok" else "FAIL image without Count label not reported as NoCount"
  | "NoInfo" =>
    if decide (NoLabel cs.K Spec.Arc.COUNT) || !decide (NoLabel cs.K Spec.Arc.INFO) then "FAIL generator: labels"
    else if out == ["err", "NoInfo"] then "ok" else "FAIL image without Info label not reported as NoInfo"
  | "MissingName" =>
    if !missingNamePremise cs then "FAIL generator: no nameless record"
    else if out == ["err", "MissingName"] then "ok" else "FAIL nameless record not reported as MissingName"
  | "OutOfRange" =>
    if !outOfRangePremise cs then "FAIL generator: no record leaves the data"
    else if out.head? == some "err" then
      (if out == ["err", "OutOfBounds"] then "ok" else "FAIL range outside the data reported with another error class")
    else "FAIL record whose range leaves the data region was not reported as an error"
  | _ => "ok skip malformed"

def family : Family where
  State := Unit
  init := ()
  step := fun _ c i =>
    match parseCase c with
    | some cs => ((), modelStr (Mila.Arc.fromBytes sjisSub cs.profile cs.img), oracle cs i)
    | none => ((), "bad-case", "FAIL bad-case")

end Driver.Arc
