/- Driver family `arc`: C16 — 3DS arc.  (stub: replace `family`) -/
import Driver.Common

namespace Driver.Arc
open Mila

def family : Family where
  State := Unit
  init := ()
  step := fun _ _ _ => ((), "unimplemented", "FAIL unimplemented")

end Driver.Arc
