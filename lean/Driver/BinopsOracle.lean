/- Specification oracle of the `binops` family (C03, C04): judges the implementation's printed
   result and state after an op against the implementation's printed state before it.
   Imports the specification only — never the model. -/
import Driver.Common
import MilaModel.Spec.BinOp
import MilaModel.Spec.Reloc
import MilaModel.Spec.Cell

namespace Driver.Binops.Oracle
open Mila

/-- What the harness prints after every op (the observable state). -/
structure Obs where
  size : Nat
  data : Bytes
  text : List (Nat × Bytes)
  ptr : List (Nat × Nat)
  labels : List (Nat × List Bytes)
  cstr : List (Bytes × List Nat)
  r : Nat
  w : Nat
  deriving Repr, DecidableEq

def field (fs : List String) (key : String) : Option String :=
  (fs.find? (fun f => f.startsWith (key ++ "="))).map (fun f => (f.drop (key.length + 1)).toString)

def splitNonEmpty (s : String) (sep : String) : List String :=
  if s == "-" then [] else s.splitOn sep

def pair (s : String) : String × String :=
  match s.splitOn ":" with
  | [a, b] => (a, b)
  | [a] => (a, "")
  | _ => ("", "")

def parseObs (impl : List String) : Option Obs := do
  let fs := impl.dropWhile (· != "|")
  let size ← (← field fs "size").toNat?
  let data ← bytesOfHex (← field fs "data")
  let text := (splitNonEmpty (← field fs "text") ",").map (fun e =>
    let (a, b) := pair e; (a.toNat?.getD 0, hexOrBad b))
  let ptr := (splitNonEmpty (← field fs "ptr") ",").map (fun e =>
    let (a, b) := pair e; (a.toNat?.getD 0, b.toNat?.getD 0))
  let labels := (splitNonEmpty (← field fs "labels") ";").map (fun e =>
    let (a, b) := pair e
    (a.toNat?.getD 0, if b == "!" then [] else (b.splitOn "/").map hexOrBad))
  let cstr := (splitNonEmpty (← field fs "cstr") ";").map (fun e =>
    let (a, b) := pair e
    (hexOrBad a, (b.splitOn "/").map (fun x => x.toNat?.getD 0)))
  let r ← (← field fs "r").toNat?
  let w ← (← field fs "w").toNat?
  pure ⟨size, data, text, ptr, labels, cstr, r, w⟩

def judgeNew (o : Option Obs) : String :=
  match o with
  | some o => if o = ⟨0, [], [], [], [], [], 0, 0⟩ then "ok" else "FAIL new archive is not empty"
  | none => "FAIL unreadable state"


/-! ### helpers -/

abbrev Chk := Except String Unit

def need (c : Bool) (msg : String) : Chk := if c then .ok () else .error msg

def sameSet {α : Type} [BEq α] (x y : List α) : Bool :=
  x.length == y.length && x.all (y.contains ·) && y.all (x.contains ·)

def resFields (impl : List String) : List String := (impl.drop 1).takeWhile (· != "|")

def isOk (r : List String) : Bool := r.head? == some "ok"
def isErr (r : List String) : Bool := r.head? == some "err"
def isOOB (r : List String) : Bool := r == ["err", "OutOfBounds"]

def nonEmptyLabels (l : List (Nat × List Bytes)) : List (Nat × List Bytes) := l.filter (fun p => !p.2.isEmpty)

def content (o : Obs) : Spec.Reloc.Content := ⟨o.data, o.text, o.ptr, nonEmptyLabels o.labels, o.cstr⟩

def lookup {ν : Type} (m : List (Nat × ν)) (k : Nat) : Option ν := Spec.Reloc.lookup m k

def without {ν : Type} (m : List (Nat × ν)) (k : Nat) : List (Nat × ν) := m.filter (fun p => p.1 != k)

def optHex : Option Bytes → String
  | none => "~"
  | some b => hexOfBytes b
def optNatStr : Option Nat → String
  | none => "~"
  | some n => toString n
def bucketStr (b : List Bytes) : String := if b.isEmpty then "!" else "/".intercalate (b.map hexOfBytes)
def optBucket : Option (List Bytes) → String
  | none => "~"
  | some b => bucketStr b

def unchanged (b a : Obs) : Chk := need (a == b) "rejected / read-only call changed the state"

/-- everything except the listed parts is as before. -/
def sameBut (b a : Obs) (data text ptr labels cstr r w : Bool := false) : Chk := do
  need (data || a.data == b.data) "raw bytes disturbed"
  need (text || a.text == b.text) "strings disturbed"
  need (ptr || a.ptr == b.ptr) "pointers disturbed"
  need (labels || a.labels == b.labels) "labels disturbed"
  need (cstr || a.cstr == b.cstr) "c-strings disturbed"
  need (r || a.r == b.r) "reader cursor moved"
  need (w || a.w == b.w) "writer cursor moved"

/-! ### C03: relocation -/

/-- `e` = the specification's image of the state before; `pre` = address before the request of an
address after it (`none`: freshly inserted).  Strings / pointer cells are observable only where
`addr + 4 ≤ size`: an entry may *appear* only if its cell was unobservable before. -/
def relocCheck (b a : Obs) (e : Spec.Reloc.Content) (pre : Nat → Option Nat) : Chk := do
  need (a.data == e.data) "Reloc: data is not the spliced data"
  let vis (y : Nat) : Bool := y + 4 ≤ a.size
  let mayAppear (y : Nat) : Bool := match pre y with
    | some x => x + 4 > b.size
    | none => false
  need ((e.text.filter (fun p => vis p.1)).all (a.text.contains ·)) "Reloc: a string was lost or misplaced"
  need (a.text.all (fun p => e.text.contains p || mayAppear p.1)) "Reloc: a string was invented"
  need ((e.ptrs.filter (fun p => vis p.1)).all (a.ptr.contains ·)) "Reloc: a pointer was lost or misplaced (cell or target)"
  need (a.ptr.all (fun p => e.ptrs.contains p || mayAppear p.1)) "Reloc: a pointer was invented"
  need (sameSet e.labels (nonEmptyLabels a.labels)) "Reloc: labels are not the image of the labels before"
  need (sameSet e.cstrs a.cstr) "Reloc: pending c-strings are not the image of the c-strings before"
  need (a.r == b.r && a.w == b.w) "Reloc: a cursor moved"

def rejected (b a : Obs) (r : List String) (oob unaligned : Bool) : Chk := do
  need (isErr r) "a misaligned / out-of-range request must be rejected"
  need ((oob && r == ["err", "OutOfBounds"]) || (unaligned && r == ["err", "Unaligned"])) "wrong error class for the rejected request"
  unchanged b a

def judgeAllocate (b a : Obs) (r : List String) (addr n : Nat) (ge : Bool) : Chk :=
  if Spec.Reloc.allocAccepted b.size addr n then do
    need (r == ["ok"]) "an aligned in-range insert request must be accepted"
    relocCheck b a (Spec.Reloc.allocated addr n ge (content b))
      (fun y => if y < addr then some y else if y ≥ addr + n then some (y - n) else none)
  else rejected b a r (addr > b.size) (addr % 4 != 0 || n % 4 != 0)

def judgeAppend (b a : Obs) (r : List String) (n : Nat) : Chk := do
  need (r == ["ok"]) "appending at the end is always accepted"
  relocCheck b a (Spec.Reloc.appended n (content b)) some

def judgeDeallocate (b a : Obs) (r : List String) (addr n : Nat) : Chk :=
  if Spec.Reloc.deallocAccepted b.size addr n then do
    need (r == ["ok"]) "an aligned in-range remove request must be accepted"
    relocCheck b a (Spec.Reloc.deallocated addr n (content b))
      (fun y => if y < addr then some y else some (y + n))
  else rejected b a r (!(decide (addr < b.size) && decide (addr + n ≤ b.size))) (addr % 4 != 0 || n % 4 != 0)

def judgeTruncate (b a : Obs) (r : List String) (cut : Nat) : Chk := do
  need (r == ["ok"]) "truncate is always accepted"
  relocCheck b a (Spec.Reloc.truncated cut (content b)) some

/-! ### C04: cell access -/

def endianOf (big : Bool) : Endian := if big then .big else .little

def tyBits (t : Ty) : Nat := 8 * t.width

def tyValue (big : Bool) (t : Ty) (cell : Bytes) : Int :=
  let n := Spec.Cell.valueOf (endianOf big) cell
  if t.signed then Spec.Cell.signedOf (tyBits t) n else (n : Int)

def slice (d : Bytes) (addr len : Nat) : Bytes := (d.drop addr).take len

/-- typed read at `addr`; `moved` = how far the cursor (reader) went. -/
def judgeRead (big : Bool) (b : Obs) (r : List String) (t : Ty) (addr : Nat) : Chk :=
  if Spec.Cell.InRange b.size addr t.width then
    need (r == ["ok", toString (tyValue big t (slice b.data addr t.width))]) "read inside the data must return the stored value"
  else need (isOOB r) "read outside the data must be an out-of-bounds error"

def judgeWrite (big : Bool) (b a : Obs) (r : List String) (t : Ty) (addr : Nat) (v : Int) : Chk :=
  if Spec.Cell.InRange b.size addr t.width then do
    let bits := (v % (2 : Int) ^ tyBits t).toNat
    need (r.head? == some "ok") "write inside the data must succeed"
    need (Spec.Cell.replacedB b.data a.data addr (Spec.Cell.layout (endianOf big) t.width bits))
      "write must change exactly the addressed bytes to the endian encoding"
    need (r == ["ok", "rb=ok:" ++ toString (tyValue big t (Spec.Cell.layout (endianOf big) t.width bits))]
      && tyValue big t (Spec.Cell.layout (endianOf big) t.width bits) == v)
      "the matching read must return the written value"
  else do
    need (isOOB r) "write outside the data must be an out-of-bounds error"
    need (a.data == b.data) "failed write changed bytes"

def judgeCell (b : Obs) (r : List String) (addr : Nat) (value : String) : Chk :=
  if Spec.Cell.InRange b.size addr 4 then need (r == ["ok", value]) "annotation read returned something else than the state shows"
  else need (isOOB r) "annotation access outside the data must be an out-of-bounds error"

/-- expected c-string table after `write_c_string(addr, v)`. -/
def cstrPush (m : List (Bytes × List Nat)) (v : Bytes) (addr : Nat) : List (Bytes × List Nat) :=
  if m.any (fun p => p.1 == v) then m.map (fun p => if p.1 == v then (p.1, p.2 ++ [addr]) else p)
  else m ++ [(v, [addr])]

def judgeWriteStr (b a : Obs) (r : List String) (addr : Nat) (v : Option Bytes) : Chk :=
  if Spec.Cell.InRange b.size addr 4 then do
    need (r == ["ok"]) "string write / delete inside the data must succeed"
    need (sameSet a.text (without b.text addr ++ (match v with | some s => [(addr, s)] | none => []))) "string map law"
    sameBut b a (text := true)
  else do need (isOOB r) "string write outside the data must be out-of-bounds"; unchanged b a

def judgeWritePtr (b a : Obs) (r : List String) (addr : Nat) (v : Option Nat) : Chk :=
  if Spec.Cell.InRange b.size addr 4 then do
    need (r == ["ok"]) "pointer write / delete inside the data must succeed"
    need (sameSet a.ptr (without b.ptr addr ++ (match v with | some s => [(addr, s)] | none => []))) "pointer map law"
    sameBut b a (ptr := true)
  else do need (isOOB r) "pointer write outside the data must be out-of-bounds"; unchanged b a

def judgeWriteCStr (b a : Obs) (r : List String) (addr : Nat) (v : Bytes) : Chk :=
  if Spec.Cell.InRange b.size addr 4 then do
    need (r == ["ok"]) "c-string write inside the data must succeed"
    need (sameSet a.cstr (cstrPush b.cstr v addr)) "c-string table law"
    sameBut b a (cstr := true)
  else do need (isOOB r) "c-string write outside the data must be out-of-bounds"; unchanged b a

def judgeWriteLabel (b a : Obs) (r : List String) (addr : Nat) (v : Bytes) : Chk :=
  if addr ≤ b.size then do
    need (r == ["ok"]) "label write up to the end address must succeed"
    let old := (lookup b.labels addr).getD []
    need (sameSet (nonEmptyLabels a.labels) (nonEmptyLabels (without b.labels addr) ++ [(addr, old ++ [v])])) "label append law"
    sameBut b a (labels := true)
  else do need (isOOB r) "label write beyond the end must be out-of-bounds"; unchanged b a

def judge (big : Bool) (before after : Option Obs) (op : Op) (impl : List String) : String :=
  match before, after with
  | some b, some a =>
    let r := resFields impl
    if r == ["panic"] then "FAIL panic" else
    let chk : Except String String := do
      need (a.size == a.data.length) "size() differs from the data length"
      match op with
      -- C03
      | .allocEnd n => judgeAppend b a r n; pure "ok"
      | .wAllocEnd n => judgeAppend b a r n; pure "ok"
      | .allocate addr n ge => judgeAllocate b a r addr n ge; pure "ok"
      | .wAlloc n ge =>
        (if b.w == b.size then judgeAppend b a r n else judgeAllocate b a r b.w n ge); pure "ok"
      | .deallocate addr n _ => judgeDeallocate b a r addr n; pure "ok"
      | .truncate cut => judgeTruncate b a r cut; pure "ok"
      -- C04 positional cells
      | .read t addr => judgeRead big b r t addr; unchanged b a; pure "ok"
      | .write t addr v => judgeWrite big b a r t addr v; sameBut b a (data := true); pure "ok"
      | .readBytes addr n =>
        unchanged b a
        if n == 0 then pure "ok skip empty range" else
        if Spec.Cell.InRange b.size addr n then need (r == ["ok", hexOfBytes (slice b.data addr n)]) "byte read inside the data must return the bytes"
        else need (isOOB r) "byte read outside the data must be an out-of-bounds error"
        pure "ok"
      | .writeBytes addr v =>
        sameBut b a (data := true)
        if v.isEmpty then (do need (a.data == b.data) "empty write changed bytes"; pure "ok skip empty range") else
        if Spec.Cell.InRange b.size addr v.length then do
          need (r == ["ok", "rb=ok:" ++ hexOfBytes v]) "byte write inside the data must succeed and read back"
          need (Spec.Cell.replacedB b.data a.data addr v) "byte write must change exactly the addressed bytes"
          pure "ok"
        else do need (isOOB r) "byte write outside the data must be an out-of-bounds error"; unchanged b a; pure "ok"
      -- annotations (never disturb raw bytes)
      | .readStr addr => unchanged b a; judgeCell b r addr (optHex (lookup b.text addr)); pure "ok"
      | .readPtr addr => unchanged b a; judgeCell b r addr (optNatStr (lookup b.ptr addr)); pure "ok"
      | .readLabels addr => unchanged b a; judgeCell b r addr (optBucket (lookup b.labels addr)); pure "ok"
      | .readCStr _ => unchanged b a; pure "ok"
      | .writeStr addr v => judgeWriteStr b a r addr v; pure "ok"
      | .delStr addr => judgeWriteStr b a r addr none; pure "ok"
      | .writePtr addr v => judgeWritePtr b a r addr v; pure "ok"
      | .delPtr addr => judgeWritePtr b a r addr none; pure "ok"
      | .writeCStr addr v => judgeWriteCStr b a r addr v; pure "ok"
      | .writeLabel addr v => judgeWriteLabel b a r addr v; pure "ok"
      | .writeLabels addr ls =>
        if addr ≤ b.size then do
          need (r == ["ok"]) "label write up to the end address must succeed"
          need (sameSet (nonEmptyLabels a.labels) (nonEmptyLabels (without b.labels addr ++ [(addr, ls)]))) "label replace law"
          sameBut b a (labels := true)
        else do need (isOOB r) "label write beyond the end must be out-of-bounds"; unchanged b a
        pure "ok"
      | .delLabels addr =>
        if Spec.Cell.InRange b.size addr 4 then do
          need (r == ["ok"]) "label delete inside the data must succeed"
          need (sameSet a.labels (without b.labels addr)) "label delete law"
          sameBut b a (labels := true)
        else do need (isOOB r) "label delete outside the data must be out-of-bounds"; unchanged b a
        pure "ok"
      | .delLabel addr i =>
        if Spec.Cell.InRange b.size addr 4 then
          match lookup b.labels addr with
          | some bucket =>
            if i < bucket.length then do
              need (r == ["ok"]) "deleting an existing label must succeed"
              need (sameSet a.labels (without b.labels addr ++ [(addr, bucket.eraseIdx i)])) "label erase law"
              sameBut b a (labels := true)
            else do need (isErr r) "label index out of range must be an error"; unchanged b a
          | none => do need (r == ["ok"]) "deleting from an unlabelled cell is a no-op"; unchanged b a
        else do need (isOOB r) "label delete outside the data must be out-of-bounds"; unchanged b a
        pure "ok"
      | .find s =>
        unchanged b a
        let hits := ((nonEmptyLabels b.labels).filter (fun p => p.2.contains s)).map (·.1)
        need (r == ["ok", optNatStr hits.min?]) "find_label_address must return the lowest labelled address"
        pure "ok"
      | .ptrDests =>
        unchanged b a
        let got := ((r.getD 1 "-").splitOn ",")
        need (isOk r && b.ptr.all (fun p => got.contains (toString p.2))) "pointer_destinations misses a target"
        pure "ok"
      | .getLabels =>
        unchanged b a
        let n := ((nonEmptyLabels b.labels).map (fun p => p.2.length)).foldl (· + ·) 0
        need (isOk r && (if n == 0 then r.getD 1 "" == "-" else ((r.getD 1 "").splitOn ",").length == n)) "get_labels count"
        pure "ok"
      -- reader
      | .rSeek p => need (r == ["ok"] && a == { b with r := p }) "seek sets the reader cursor only"; pure "ok"
      | .rSkip n =>
        if r == ["skipov"] then (do unchanged b a; pure "ok skip cursor overflow") else do
        need (r == ["ok"] && a == { b with r := b.r + n }) "skip advances the reader cursor only"; pure "ok"
      | .rTell => unchanged b a; need (r == ["ok", toString b.r]) "tell"; pure "ok"
      | .rRead t =>
        judgeRead big b r t b.r
        need (a == { b with r := if isOk r then b.r + t.width else b.r }) "stream read = positional read at the cursor; cursor advances by the width on success only"
        pure "ok"
      | .rBytes n =>
        if n == 0 then (do unchanged b a; need (r == ["ok", "-"]) "empty stream read"; pure "ok skip empty range") else
        if Spec.Cell.InRange b.size b.r n then do
          need (r == ["ok", hexOfBytes (slice b.data b.r n)]) "stream byte read inside the data must return the bytes"
          need (a == { b with r := b.r + n }) "cursor advances by the count"
          pure "ok"
        else do
          need (isOOB r) "stream byte read outside the data must be an out-of-bounds error"
          need (a == b) "stream-bytes-partial: failed BinArchiveReader::read_bytes moved the cursor"
          pure "ok"
      | .rStr =>
        judgeCell b r b.r (optHex (lookup b.text b.r))
        need (a == { b with r := if isOk r then b.r + 4 else b.r }) "stream string read: cursor law"; pure "ok"
      | .rPtr =>
        judgeCell b r b.r (optNatStr (lookup b.ptr b.r))
        need (a == { b with r := if isOk r then b.r + 4 else b.r }) "stream pointer read: cursor law"; pure "ok"
      | .rCStr =>
        need (a == { b with r := if isOk r then b.r + 4 else b.r }) "stream c-string read: cursor law"; pure "ok"
      | .rLabels => unchanged b a; judgeCell b r b.r (optBucket (lookup b.labels b.r)); pure "ok"
      | .rLabel i =>
        unchanged b a
        judgeCell b r b.r (optHex (((lookup b.labels b.r).getD [])[i]?)); pure "ok"
      | .rSjis => sameBut b a (r := true); pure "ok skip not a cell access"
      -- writer
      | .wSeek p => need (r == ["ok"] && a == { b with w := p }) "seek sets the writer cursor only"; pure "ok"
      | .wSkip n =>
        if r == ["skipov"] then (do unchanged b a; pure "ok skip cursor overflow") else do
        need (r == ["ok"] && a == { b with w := b.w + n }) "skip advances the writer cursor only"; pure "ok"
      | .wTell => unchanged b a; need (r == ["ok", toString b.w]) "tell"; pure "ok"
      | .wSize => unchanged b a; need (r == ["ok", toString b.size, toString b.size]) "size/length"; pure "ok"
      | .wWrite t v =>
        judgeWrite big b a r t b.w v
        sameBut b a (data := true) (w := true)
        need (a.w == (if isOk r then b.w + t.width else b.w)) "stream write: cursor advances by the width on success only"
        pure "ok"
      | .wBytes v =>
        sameBut b a (data := true) (w := true)
        if v.isEmpty then (do unchanged b a; need (r == ["ok"]) "empty stream write"; pure "ok skip empty range") else
        if Spec.Cell.InRange b.size b.w v.length then do
          need (r == ["ok"]) "stream byte write inside the data must succeed"
          need (Spec.Cell.replacedB b.data a.data b.w v) "stream byte write must change exactly the addressed bytes"
          need (a.w == b.w + v.length) "cursor advances by the count"
          pure "ok"
        else do
          need (isOOB r) "stream byte write outside the data must be an out-of-bounds error"
          need (a == b) "stream-bytes-partial: failed BinArchiveWriter::write_bytes changed bytes / moved the cursor"
          pure "ok"
      | .wStr v =>
        judgeWriteStr { b with w := a.w } a r b.w v
        need (a.w == (if isOk r then b.w + 4 else b.w)) "stream string write: cursor law"; pure "ok"
      | .wPtr v =>
        judgeWritePtr { b with w := a.w } a r b.w v
        need (a.w == (if isOk r then b.w + 4 else b.w)) "stream pointer write: cursor law"; pure "ok"
      | .wCStr v =>
        judgeWriteCStr { b with w := a.w } a r b.w v
        need (a.w == (if isOk r then b.w + 4 else b.w)) "stream c-string write: cursor law"; pure "ok"
      | .wLabel v => judgeWriteLabel b a r b.w v; pure "ok"
    match chk with
    | .ok s => s
    | .error e => "FAIL " ++ e
  | _, _ => "FAIL unreadable state"

end Driver.Binops.Oracle
