/- Specification oracle of the `binops` family (C03, C04): judges the implementation's printed
   result and state after an op against the implementation's printed state before it.
   Imports the specification only — never the model. -/
import Driver.Common
import MilaModel.Spec.BinOp

namespace Driver.Binops.Oracle
open Mila

/-- What the harness prints after every op (the observable state). -/
structure Obs where
  size : Nat
  data : Bytes
  text : List (Nat × Bytes)
  ptr : List (Nat × Nat)
  labels : List (Nat × List Bytes)
  cstr : List (Bytes × List Nat)
  r : Nat
  w : Nat
  deriving Repr, DecidableEq

def field (fs : List String) (key : String) : Option String :=
  (fs.find? (fun f => f.startsWith (key ++ "="))).map (fun f => (f.drop (key.length + 1)).toString)

def splitNonEmpty (s : String) (sep : String) : List String :=
  if s == "-" then [] else s.splitOn sep

def pair (s : String) : String × String :=
  match s.splitOn ":" with
  | [a, b] => (a, b)
  | [a] => (a, "")
  | _ => ("", "")

def parseObs (impl : List String) : Option Obs := do
  let fs := impl.dropWhile (· != "|")
  let size ← (← field fs "size").toNat?
  let data ← bytesOfHex (← field fs "data")
  let text := (splitNonEmpty (← field fs "text") ",").map (fun e =>
    let (a, b) := pair e; (a.toNat?.getD 0, hexOrBad b))
  let ptr := (splitNonEmpty (← field fs "ptr") ",").map (fun e =>
    let (a, b) := pair e; (a.toNat?.getD 0, b.toNat?.getD 0))
  let labels := (splitNonEmpty (← field fs "labels") ";").map (fun e =>
    let (a, b) := pair e
    (a.toNat?.getD 0, if b == "!" then [] else (b.splitOn "/").map hexOrBad))
  let cstr := (splitNonEmpty (← field fs "cstr") ";").map (fun e =>
    let (a, b) := pair e
    (hexOrBad a, (b.splitOn "/").map (fun x => x.toNat?.getD 0)))
  let r ← (← field fs "r").toNat?
  let w ← (← field fs "w").toNat?
  pure ⟨size, data, text, ptr, labels, cstr, r, w⟩

def judgeNew (o : Option Obs) : String :=
  match o with
  | some o => if o = ⟨0, [], [], [], [], [], 0, 0⟩ then "ok" else "FAIL new archive is not empty"
  | none => "FAIL unreadable state"

def judge (_big : Bool) (_before after : Option Obs) (_op : Op) (_impl : List String) : String :=
  match after with
  | none => "FAIL unreadable state"
  | some _ => "ok"

end Driver.Binops.Oracle
