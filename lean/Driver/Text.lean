/- Driver family `text`: C06 (round trip, layout) and C07 (ordered map, escaping, dirty flag).
Line formats are documented in `harness/src/fam/text.rs`. -/
import Driver.Common
import MilaModel.Model.TextArchive
import MilaModel.Spec.TextMap
import MilaModel.Spec.TextImage

namespace Driver.Text
open Mila Mila.TextArchive

/-! ### line-protocol helpers -/

def fmtOf : String → Option TextFormat
  | "S" => some .shiftJIS | "U" => some .unicode | _ => none
def endianOf : String → Option Endian
  | "L" => some .little | "B" => some .big | _ => none

def listStr (items : List String) : String :=
  if items.isEmpty then "~" else String.intercalate "," items

def pairsStr (es : List (Str × Str)) : String :=
  listStr (es.map (fun p => hexOfBytes p.1 ++ ":" ++ hexOfBytes p.2))

/-- `a:b,c:d` → list of field lists. -/
def parseList (s : String) : List (List String) :=
  if s == "~" then [] else (s.splitOn ",").map (fun p => p.splitOn ":")

def parsePairs (s : String) : Option (List (Bytes × Bytes)) :=
  (parseList s).mapM (fun p =>
    match p with
    | [a, b] => do pure ((← bytesOfHex a), (← bytesOfHex b))
    | _ => none)

/-- value of `key=` in an implementation line -/
def field (fs : List String) (key : String) : Option String :=
  (fs.find? (fun f => f.startsWith (key ++ "="))).map (fun f => (f.drop (key.length + 1)).toString)

def c : Codec := sjisSub

/-! ### C06 -/

/-- One damage item of a `sec` case applied to an image (see `harness/src/fam/text.rs::damage`). -/
def damage (bytes : Bytes) (item : List String) (e : Endian) : Bytes :=
  match item with
  | ["tr", k] => bytes.take (bytes.length - k.toNat!)
  | ["w", pos, v] =>
    let pos := pos.toNat!
    if pos + 4 ≤ bytes.length then BinArchive.patch bytes pos (e.enc 4 v.toNat!) else bytes
  | ["b", pos, v] =>
    let pos := pos.toNat!
    if pos < bytes.length then BinArchive.patch bytes pos [UInt8.ofNat v.toNat!] else bytes
  | ["be", k, v] =>
    let k := k.toNat!
    if k < bytes.length then BinArchive.patch bytes (bytes.length - 1 - k) [UInt8.ofNat v.toNat!] else bytes
  | _ => bytes

/-- `rt`, and `sec` when `dmg` is given: the model is pure, so the parses of the damaged copies
cannot influence the round trip; their outcomes (ok / err) are reported after it. -/
def modelRt (f : TextFormat) (e : Endian) (title : Str) (entries : List (Str × Str))
    (dmg : Option (List (List String)) := none) : String :=
  let t := entries.foldl (fun t p => t.setMessage p.1 p.2) ((TextArchive.new f e).setTitle title)
  match t.serialize c with
  | .ok bytes =>
    let pre := match dmg with
      | none => ""
      | some items =>
        let r := String.join (items.map (fun it =>
          match TextArchive.fromBytes c (damage bytes it e) f e with
          | .ok _ => "o" | .err _ => "e" | .panic => "p"))
        " pre=" ++ (if r.isEmpty then "-" else r)
    let head := "ok stored=" ++ pairsStr t.entries ++ " bytes=" ++ hexOfBytes bytes
    match TextArchive.fromBytes c bytes f e with
    | .ok p => head ++ " parsed title=" ++ hexOfBytes p.title ++ " entries=" ++ pairsStr p.entries
        ++ " reser=" ++ (match p.serialize c with
          | .ok b2 => if b2 == bytes then "same" else "diff"
          | .err er => "err:" ++ er.name
          | .panic => "panic") ++ pre
    | .err er => head ++ " parse-err " ++ er.name ++ pre
    | .panic => "panic"
  | .err er => "err " ++ er.name
  | .panic => "panic"

/-- `rtd` (C07 sub-stream): the dirty flag of a parsed archive.  Whether the image re-parses is
C06's business, so that part of the line is taken from the implementation; by theorem
`C07.dirty_parsed` the model's parsed archive is never dirty. -/
def modelRtd (impl : List String) : String :=
  if impl.getD 1 "" == "ok" && impl.getD 2 "" == "parsed" then "ok parsed dirty=0"
  else String.intercalate " " (impl.drop 1)

/-- Domain of the Shift-JIS side of C06: NUL-free strings the codec represents losslessly. -/
def inSjisDomain (s : Str) : Bool :=
  match c.enc s with
  | some b => !b.contains 0 && c.dec b == s && !s.contains 0
  | none => false

/-- Rust's `String::from_utf8` accepts exactly the shortest-form encodings of scalar values:
decoding and re-encoding gives the same bytes. -/
def inUtf8Strict (s : Str) : Bool :=
  match Utf.utf8Dec s with
  | some cs => cs.all (fun x => decide (Utf.IsScalar x)) && Utf.utf8Enc cs == s
  | none => false

/-- Valid UTF-8 of NUL-free scalar values (what a NUL-free Rust `String` is). -/
def inUnicodeDomain (s : Str) : Bool :=
  match Utf.utf8Dec s with
  | some cs => cs.all (fun x => x ≠ 0 && decide (Utf.IsScalar x))
  | none => false

/-- Classification of a string that `serialize` has to encode as Shift-JIS (keys, the title in the
UTF-16 format, legacy-format messages), independent of the model:
* `skip`   — outside C06's quantifier or not decidable here: contains NUL, one of the three
             lossy-but-encodable code points U+00A5 / U+203E / U+2212, or a code point that is
             neither in the sub-codec alphabet nor a known-unencodable probe;
* `inDom`  — every code point is in the executable sub-codec alphabet (Shift-JIS-lossless);
* `unenc`  — otherwise: sub-codec code points plus at least one known-unencodable one (U+00E9,
             U+2713, any astral code point: not in the Shift-JIS index of the Encoding Standard). -/
inductive SjisClass | skip | inDom | unenc
  deriving DecidableEq

def lossyCp (cp : Nat) : Bool := cp == 0xA5 || cp == 0x203E || cp == 0x2212

def sjisClass (s : Str) : SjisClass :=
  match Utf.utf8Dec s with
  | none => .skip
  | some cs =>
    if cs.any (fun x => x == 0 || lossyCp x) then .skip
    else if cs.all (fun x => (Sjis.encCp x).isSome) then (if inSjisDomain s then .inDom else .skip)
    else if cs.all (fun x => (Sjis.encCp x).isSome || x == 0xE9 || x == 0x2713 || x ≥ 0x10000) then .unenc
    else .skip

def hasLossy (s : Str) : Bool :=
  match Utf.utf8Dec s with
  | none => false
  | some cs => cs.any lossyCp

/-- Joint classification of an archive's content: `none` = skip, `some true` = entirely inside the
domain, `some false` = holds at least one unencodable string (serialize may refuse it; if it
accepts, the round-trip clause applies to what it accepted). -/
def contentClass (uni : Bool) (title : Str) (entries : List (Str × Str)) : Option Bool :=
  let keys := entries.map (·.1)
  let subj := keys ++ (if uni then [title] else entries.map (·.2))
  let cls := subj.map sjisClass
  if keys.eraseDups.length != keys.length then none
  else if cls.any (· == .skip) then none
  else if uni && !(entries.all (fun p => inUnicodeDomain p.2)) then none
  else some (cls.all (· == .inDom))

def oracleRt (f : TextFormat) (e : Endian) (title : Str) (entries : List (Str × Str))
    (impl : List String) : String :=
  if impl.getD 1 "" == "panic" then "FAIL panic" else
  let keys := entries.map (·.1)
  let uni := f == .unicode
  -- The archive content is what `get_entries` showed before serialisation (`stored=`); when the
  -- implementation failed before printing it, what the specification says `set_message` stores.
  let stored := ((field impl "stored").bind parsePairs).getD
    (entries.map (fun p => (p.1, Spec.TextMap.unescape p.2)))
  if stored.map (·.1) != keys then "ok skip (outside the property's domain)" else
  match contentClass uni title stored with
  | none => "ok skip (outside the property's domain)"
  | some inDom =>
  -- `serialize` may refuse content it cannot encode; whatever it accepts must round-trip
  if impl.getD 1 "" != "ok" then
    (if inDom then "FAIL serialize failed on an in-domain archive" else "ok") else
  if impl.getD 4 "" != "parsed" then "FAIL re-parse failed on the archive's own image" else
  match (field impl "bytes").bind bytesOfHex, (field impl "title").bind bytesOfHex,
      (field impl "entries").bind parsePairs with
  | some bytes, some ptitle, some pentries =>
    if uni && ptitle != title then "FAIL round trip: title differs"
    else if pentries.map (·.1) != keys then "FAIL round trip: keys or key order differ"
    else if pentries != stored then "FAIL round trip: a message differs"
    else match Spec.TextImage.checkFile uni (e == .big) c.dec bytes title stored with
      | none => "ok"
      | some why => "FAIL layout: " ++ why
  | _, _, _ => "FAIL unreadable implementation line"

def parseLabels (s : String) : Option (List (Nat × Str)) :=
  (parseList s).mapM (fun p =>
    match p with
    | [a, b] => do pure ((← a.toNat?), (← bytesOfHex b))
    | _ => none)

def modelFa (f : TextFormat) (e : Endian) (data : Bytes) (labels : List (Nat × Str)) : String :=
  let a0 := (BinArchive.new e).allocateAtEnd data.length
  let r : Res TextArchive := do
    let a1 ← if data.isEmpty then .ok a0 else a0.writeBytes 0 data
    let a2 ← labels.foldlM (fun a l => a.writeLabel l.1 l.2) a1
    TextArchive.fromArchive c a2 f e
  match r with
  | .ok p => "ok title=" ++ hexOfBytes p.title ++ " entries=" ++ pairsStr p.entries
  | .err er => "err " ++ er.name
  | .panic => "panic"

/-! ### C06 on archives that went through a history (`hs`) -/

inductive HOp
  | title (t : Str) | del (k : Str) | set (k m : Str)

def parseOps (s : String) : Option (List HOp) :=
  (parseList s).mapM (fun p =>
    match p with
    | ["t", a] => do pure (.title (← bytesOfHex a))
    | ["d", a] => do pure (.del (← bytesOfHex a))
    | ["s", a, b] => do pure (.set (← bytesOfHex a) (← bytesOfHex b))
    | _ => none)

def applyOp (t : TextArchive) : HOp → TextArchive
  | .title s => t.setTitle s
  | .del k => t.deleteMessage k
  | .set k m => t.setMessage k m

def modelHs (f : TextFormat) (e : Endian) (title : Str) (entries : List (Str × Str))
    (parsedFirst : Bool) (ops : List HOp) : String :=
  let t0 := entries.foldl (fun t p => t.setMessage p.1 p.2) ((TextArchive.new f e).setTitle title)
  let start : Res TextArchive :=
    if parsedFirst then
      match t0.serialize c with
      | .ok b0 => TextArchive.fromBytes c b0 f e
      | .err er => .err er
      | .panic => .panic
    else .ok t0
  match start with
  | .err er => "err0 " ++ er.name
  | .panic => "panic"
  | .ok t1 =>
    let t := ops.foldl applyOp t1
    let head := "ok ctitle=" ++ hexOfBytes t.title ++ " centries=" ++ pairsStr t.entries
    match t.serialize c with
    | .ok bytes =>
      match TextArchive.fromBytes c bytes f e with
      | .ok p => head ++ " bytes=" ++ hexOfBytes bytes ++ " parsed title=" ++ hexOfBytes p.title
          ++ " entries=" ++ pairsStr p.entries
      | .err er => head ++ " bytes=" ++ hexOfBytes bytes ++ " parse-err " ++ er.name
      | .panic => "panic"
    | .err er => head ++ " ser-err " ++ er.name
    | .panic => "panic"

/-- The round-trip and layout clauses of C06 on the archive *as it reported itself* (`get_title`,
`get_entries`) just before `serialize`, whatever history produced it: the file must hold exactly
that title (UTF-16 format), those keys in that order and those messages — judged on the raw bytes
by the reference reader and on the re-parsed archive. -/
def oracleHs (f : TextFormat) (e : Endian) (impl : List String) : String :=
  if impl.getD 1 "" == "panic" then "FAIL panic" else
  if impl.getD 1 "" != "ok" then "ok skip (preparatory serialize / from_bytes failed)" else
  let uni := f == .unicode
  match (field impl "ctitle").bind bytesOfHex, (field impl "centries").bind parsePairs with
  | some ctitle, some centries =>
    let keys := centries.map (·.1)
    match contentClass uni ctitle centries with
    | none => "ok skip (outside the property's domain)"
    | some inDom =>
    if impl.getD 4 "" == "ser-err" then
      (if inDom then "FAIL serialize failed on an in-domain archive" else "ok") else
    if impl.getD 5 "" != "parsed" then "FAIL re-parse failed on the archive's own image" else
    match (field impl "bytes").bind bytesOfHex, (field impl "title").bind bytesOfHex,
        (field impl "entries").bind parsePairs with
    | some bytes, some ptitle, some pentries =>
      if uni && ptitle != ctitle then "FAIL round trip after a history: title differs from get_title before serialize"
      else if pentries.map (·.1) != keys then "FAIL round trip after a history: keys or key order differ from get_entries before serialize"
      else if pentries != centries then "FAIL round trip after a history: a message differs"
      else match Spec.TextImage.checkFile uni (e == .big) c.dec bytes ctitle centries with
        | none => "ok"
        | some why => "FAIL file after a history: " ++ why
    | _, _, _ => "FAIL unreadable implementation line"
  | _, _ => "FAIL unreadable implementation line"

/-! ### C07 -/

structure St where
  id : String := ""
  model : TextArchive := TextArchive.new .unicode .little
  hist : List Spec.TextMap.Op := []
  /-- entries the implementation reported after the previous call of this case -/
  prev : List (Bytes × Bytes) := []
  /-- number of leading `hist` entries that stand for the content the archive was constructed
  with (`from_bytes` / `from_archive`); they do not count as calls for the dirty flag -/
  base : Nat := 0

def retUnit := "unit"
def retOpt : Option Str → String
  | some m => "some:" ++ hexOfBytes m
  | none => "none"

def stateLine (t : TextArchive) (ret : String) : String :=
  "ok r=" ++ ret ++ " title=" ++ hexOfBytes t.title ++ " dirty=" ++ (if t.dirty then "1" else "0")
    ++ " entries=" ++ listStr (t.entries.map (fun p =>
      hexOfBytes p.1 ++ ":" ++ hexOfBytes p.2 ++ ":" ++
        (match t.getMessage p.1 with | some g => hexOfBytes g | none => "~")))

def parseTriples (s : String) : Option (List (Bytes × Bytes × Option Bytes)) :=
  (parseList s).mapM (fun p =>
    match p with
    | [a, b, g] => do
      pure ((← bytesOfHex a), (← bytesOfHex b), (if g == "~" then none else bytesOfHex g))
    | _ => none)

open Spec.TextMap in
/-- The specification judged on the implementation's state line after history `h`
(`hBefore` = history before this call, `op` = this call, `expectRet` = the return value the
specification demands, `unchanged` = the call must leave the entries as they were). -/
def oracleC07 (hBefore : List Op) (op : Option Op) (expectRet : Option String) (unchanged : Bool)
    (prev : List (Bytes × Bytes)) (impl : List String) (base : Nat := 0) :
    String × List (Bytes × Bytes) :=
  if impl.getD 1 "" == "panic" then ("FAIL panic", prev) else
  let h := match op with | some o => hBefore ++ [o] | none => hBefore
  match field impl "r", (field impl "title").bind bytesOfHex, field impl "dirty",
      (field impl "entries").bind parseTriples with
  | some r, some title, some dirty, some triples =>
    let entries := triples.map (fun t => (t.1, t.2.1))
    let verdict :=
      if !checkKeys h (triples.map (·.1)) then "FAIL keys are not the surviving keys in order of first insertion"
      else if !triples.all (fun t => valueOf h t.1 == some t.2.1) then "FAIL stored value is not the unescaped last message set"
      else if !triples.all (fun t => t.2.2 == lookupOf h t.1) then "FAIL lookup is not the escaped stored value"
      else if title != titleOf h then "FAIL title is not the last title set"
      else if anySet (h.drop base) && dirty != "1" then "FAIL dirty flag clear after a set"
      else if (h.drop base).isEmpty && dirty != "0" then "FAIL dirty flag set on a new or parsed archive"
      else if unchanged && entries != prev then "FAIL storing a looked-up message back changed the entries"
      else match expectRet with
        | some x =>
          if r == x then "ok"
          else if r.startsWith "clean:" then "FAIL is_dirty() was false right after a set_message (call indices " ++ (r.drop 6).toString ++ ")"
          else "FAIL return value of has_message / get_message"
        | none => "ok"
    (verdict, entries)
  | _, _, _, _ => ("FAIL unreadable implementation line", prev)

def stepC07 (st : St) (cf impl : List String) : St × String × String :=
  let id := cf.headD "?"
  let bad := (st, "bad-case", "FAIL bad-case")
  match cf with
  | [_, "new", f, e] =>
    match fmtOf f, endianOf e with
    | some f, some e =>
      let t := TextArchive.new f e
      let (v, prev) := oracleC07 [] none none false [] impl
      ({ id := id, model := t, hist := [], prev := prev }, stateLine t retUnit, v)
    | _, _ => bad
  | [_, ctor, f, e, title, entries] =>
    -- the parsing constructors: `from_bytes`, or `BinArchive::from_bytes` + `from_archive`
    match fmtOf f, endianOf e, bytesOfHex title, parsePairs entries with
    | some f, some e, some title, some entries =>
      if ctor != "frombytes" && ctor != "fromarchive" then bad else
      let t0 := entries.foldl (fun t p => t.setMessage p.1 p.2) ((TextArchive.new f e).setTitle title)
      let parsed : Res TextArchive :=
        match t0.serialize c with
        | .ok bytes =>
          if ctor == "frombytes" then TextArchive.fromBytes c bytes f e
          else match BinArchive.parse c e bytes with
            | .ok bin => TextArchive.fromArchive c bin f e
            | .err er => .err er
            | .panic => .panic
        | .err er => .err er
        | .panic => .panic
      -- specification side: the content is what a history of these calls produces, but a parsed
      -- archive is not dirty (the legacy format stores no title)
      let hist : List Spec.TextMap.Op :=
        (if f == .unicode then [.title title] else []) ++ entries.map (fun p => .set p.1 p.2)
      match parsed with
      | .ok t =>
        let (v, prev) := oracleC07 hist none none false [] impl hist.length
        ({ id := id, model := t, hist := hist, prev := prev, base := hist.length }, stateLine t retUnit, v)
      | .err _ => ({ st with id := "" }, "err",
          if impl.getD 1 "" == "panic" then "FAIL panic" else "ok skip (construction failed)")
      | .panic => ({ st with id := "" }, "panic", "FAIL panic")
    | _, _, _, _ => bad
  | _ =>
    if st.id != id then bad else
    let go (t' : TextArchive) (ret : String) (ops : List Spec.TextMap.Op) (expectRet : Option String)
        (unchanged : Bool) :=
      -- `ops`: the spec-level calls this line stands for
      let hB := st.hist ++ ops.dropLast
      let (v, prev) := oracleC07 hB ops.getLast? expectRet unchanged st.prev impl st.base
      ({ st with model := t', hist := st.hist ++ ops, prev := prev }, stateLine t' ret, v)
    match cf with
    | [_, "set", k, m] =>
      let (k, m) := (hexOrBad k, hexOrBad m)
      go (st.model.setMessage k m) retUnit [.set k m] none false
    | [_, "del", k] => let k := hexOrBad k; go (st.model.deleteMessage k) retUnit [.del k] none false
    | [_, "title", t] => let t := hexOrBad t; go (st.model.setTitle t) retUnit [.title t] none false
    | [_, "has", k] =>
      let k := hexOrBad k
      go st.model (if st.model.hasMessage k then "true" else "false") [.has k]
        (some (if (Spec.TextMap.birth st.hist k).isSome then "true" else "false")) false
    | [_, "get", k] => let k := hexOrBad k; go st.model (retOpt (st.model.getMessage k)) [.get k]
        (some (retOpt (Spec.TextMap.lookupOf st.hist k))) false
    | [_, "setget", k] =>
      let k := hexOrBad k
      let got := st.model.getMessage k
      let t' := match got with | some m => st.model.setMessage k m | none => st.model
      -- spec side: the value to store back is the one the *specification* says a lookup returns
      let ops : List Spec.TextMap.Op := match Spec.TextMap.lookupOf st.hist k with
        | some m => [.get k, .set k m]
        | none => [.get k]
      go t' (retOpt got) ops (some (retOpt (Spec.TextMap.lookupOf st.hist k))) true
    | [_, "sets", count, nkeys, delevery] =>
      -- a long run of set_message calls (see the harness); the model's flag is set by the first call
      -- and nothing clears it, so no call index is reported
      match count.toNat?, nkeys.toNat?, delevery.toNat? with
      | some count, some nkeys, some delevery =>
        if nkeys == 0 || count == 0 then bad else
        let asc (x : String) : Bytes := x.toList.map (fun ch => UInt8.ofNat ch.toNat)
        let calls : List Spec.TextMap.Op := (List.range count).flatMap (fun i =>
          let st1 : List Spec.TextMap.Op := [.set (asc ("k" ++ toString (i % nkeys))) (asc ("m" ++ toString (i % 7)))]
          if delevery > 0 && i % delevery == delevery - 1 then
            st1 ++ [.del (asc ("k" ++ toString ((i + 1) % nkeys)))] else st1)
        let (t', clean) := calls.foldl (fun (acc : TextArchive × Bool) o =>
          let t2 := match o with
            | .set k m => acc.1.setMessage k m
            | .del k => acc.1.deleteMessage k
            | _ => acc.1
          (t2, acc.2 && t2.isDirty)) (st.model, true)
        go t' (if clean then "clean:-" else "clean:model") calls (some "clean:-") false
      | _, _, _ => bad
    | _ => bad

/-! ### family -/

/-- Every string field of the line is valid UTF-8 (mirror of `strings_ok` in the harness: a shrunk
replay may cut a multi-byte character in half; such a line is not a case of the API). -/
def stringsOk (cf : List String) : Bool :=
  let ok (h : String) : Bool := h == "-" || h == "~" ||
    (match bytesOfHex h with | some b => (Utf.utf8Dec b).isSome && inUtf8Strict b | none => false)
  let pairsOk (l : String) (from_ : Nat) : Bool :=
    l == "~" || (l.splitOn ",").all (fun p => ((p.splitOn ":").drop from_).all ok)
  match cf with
  | _ :: op :: rest =>
    if op == "rt" || op == "rtd" || op == "sec" || op == "frombytes" || op == "fromarchive" then
      ok (rest.getD 2 "") && pairsOk (rest.getD 3 "~") 0
    else if op == "hs" then ok (rest.getD 2 "") && pairsOk (rest.getD 3 "~") 0 && pairsOk (rest.getD 5 "~") 1
    else if op == "fa" then pairsOk (rest.getD 3 "~") 1
    else if op == "set" then ok (rest.getD 0 "") && ok (rest.getD 1 "")
    else if op == "del" || op == "has" || op == "get" || op == "title" || op == "setget" then ok (rest.getD 0 "")
    else true
  | _ => false

def family : Family where
  State := St
  init := {}
  step := fun st cf impl =>
    if !stringsOk cf then (st, "bad-case not-utf8", "ok skip (a string field is not UTF-8)") else
    match cf with
    | [_, "rt", f, e, title, entries] =>
      match fmtOf f, endianOf e, bytesOfHex title, parsePairs entries with
      | some f, some e, some title, some entries =>
        -- U+00A5 / U+203E / U+2212 are encodable but lossy: outside the quantifier and outside the
        -- executable sub-codec, so neither the model nor the oracle speaks about them
        let subj := (if f == .unicode then [title] else entries.map (·.2)) ++ entries.map (·.1)
        if subj.any hasLossy then
          (st, String.intercalate " " (impl.drop 1), "ok skip (lossy Shift-JIS code point)")
        else (st, modelRt f e title entries, oracleRt f e title entries impl)
      | _, _, _, _ => (st, "bad-case", "FAIL bad-case")
    | [_, "sec", f, e, title, entries, dmg] =>
      match fmtOf f, endianOf e, bytesOfHex title, parsePairs entries with
      | some f, some e, some title, some entries =>
        -- "second use": the ordinary round-trip oracle, on a round trip that follows failing parses
        (st, modelRt f e title entries (some (parseList dmg)), oracleRt f e title entries impl)
      | _, _, _, _ => (st, "bad-case", "FAIL bad-case")
    | [_, "rtd", f, e, title, entries] =>
      match fmtOf f, endianOf e, bytesOfHex title, parsePairs entries with
      | some _, some _, some _, some _ =>
        -- C07: "the dirty flag is clear on a ... parsed archive"
        let v := if impl.getD 1 "" == "panic" then "FAIL panic"
          else if impl.getD 2 "" != "parsed" then "ok skip (not parsed)"
          else if field impl "dirty" == some "0" then "ok" else "FAIL parsed archive is dirty"
        (st, modelRtd impl, v)
      | _, _, _, _ => (st, "bad-case", "FAIL bad-case")
    | [_, "hs", f, e, title, entries, src, ops] =>
      match fmtOf f, endianOf e, bytesOfHex title, parsePairs entries, parseOps ops with
      | some f, some e, some title, some entries, some ops =>
        let uni := f == .unicode
        let opStrs := ops.flatMap (fun o => match o with
          | .title t => if uni then [t] else []
          | .del _ => []
          | .set k m => if uni then [k] else [k, m])
        let subj := (if uni then [title] else entries.map (·.2)) ++ entries.map (·.1) ++ opStrs
        if subj.any hasLossy then
          (st, String.intercalate " " (impl.drop 1), "ok skip (lossy Shift-JIS code point)")
        else (st, modelHs f e title entries (src == "P") ops, oracleHs f e impl)
      | _, _, _, _, _ => (st, "bad-case", "FAIL bad-case")
    | [_, "fa", f, e, data, labels] =>
      match fmtOf f, endianOf e, bytesOfHex data, parseLabels labels with
      | some f, some e, some data, some labels =>
        let m := modelFa f e data labels
        (st, m, if impl.getD 1 "" == "panic" then "FAIL panic" else "ok skip (reader correspondence only)")
      | _, _, _, _ => (st, "bad-case", "FAIL bad-case")
    | _ => stepC07 st cf impl

end Driver.Text
