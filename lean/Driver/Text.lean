/- Driver family `text`: C06 C07 — text archives.  (stub: replace `family`) -/
import Driver.Common

namespace Driver.Text
open Mila

def family : Family where
  State := Unit
  init := ()
  step := fun _ _ _ => ((), "unimplemented", "FAIL unimplemented")

end Driver.Text
