/- Driver family `pack`: C15 — GameCube/Wii pack archive (`fe9_arc`).
   Case / output formats: see `harness/src/fam/pack.rs`. -/
import Driver.Common
import MilaModel.Model.Fe9Arc
import MilaModel.Spec.PackImage

namespace Driver.Pack
open Mila

/-- `<n> (<name-hex> <body-hex>)*` → files; `none` if malformed. -/
def filesOfFields : List String → Option (List (Bytes × Bytes))
  | [] => none
  | n :: rest =>
    let rec go : Nat → List String → Option (List (Bytes × Bytes))
      | 0, [] => some []
      | 0, _ :: _ => none
      | k + 1, a :: b :: tl => do
        let x ← bytesOfHex a
        let y ← bytesOfHex b
        let r ← go k tl
        pure ((x, y) :: r)
      | _ + 1, _ => none
    match n.toNat? with
    | some k => go k rest
    | none => none

def filesStr (m : List (Bytes × Bytes)) : String :=
  m.foldl (fun s kv => s ++ " " ++ hexOfBytes kv.1 ++ " " ++ hexOfBytes kv.2) (toString m.length)

/-- Error classes are not part of the property: print `err` only. -/
def resStr' {α : Type} (f : α → String) : Res α → String
  | .ok a => "ok " ++ f a
  | .err _ => "err"
  | .panic => "panic"

def enc := sjisSub.enc

/-- Parsed files; `?` when a name lies outside the sub-codec alphabet (corrupted images only). -/
def parsedStr (m : List (Bytes × Bytes)) : String :=
  if m.all (fun kv => (enc kv.1).isSome) then filesStr m else "?"

/-- Model line for `build`: serialize, then parse the produced image. -/
def modelBuild (m : List (Bytes × Bytes)) : String :=
  match Fe9Arc.serialize sjisSub m with
  | .ok img => "ok " ++ hexOfBytes img ++ " " ++
      (match Fe9Arc.parse sjisSub img with
       | .ok back => filesStr back
       | .err _ => "err"
       | .panic => "panic")
  | .err _ => "err"
  | .panic => "panic"

/-- `needle` occurs in `hay` as a contiguous block. -/
def hasInfix (needle : Bytes) : Bytes → Bool
  | [] => needle.isEmpty
  | hay@(_ :: tl) => needle.isPrefixOf hay || hasInfix needle tl

/-- The name contains U+00A5, U+203E or U+2212 (UTF-8 `C2 A5`, `E2 80 BE`, `E2 88 92`): Shift-JIS
encodes them, but not faithfully; such names are outside the property's quantifier. -/
def lossyName (name : Bytes) : Bool :=
  hasInfix [0xC2, 0xA5] name || hasInfix [0xE2, 0x80, 0xBE] name || hasInfix [0xE2, 0x88, 0x92] name

/-- Spec oracle for `build`, judged on the implementation's image and re-parsed map.  The
round-trip clause applies to whatever `serialize` accepts: if it returns an image, the image must
conform for the INPUT names and parse back to exactly the input, also when a name has no
Shift-JIS representation (then `enc` is `none` and no image can conform: the only acceptable
answer is an error). -/
def oracleBuild (m : List (Bytes × Bytes)) (impl : List String) : String :=
  if !decide (Spec.Pack.DistinctNames m) || m.length > 65535 then "ok skip" else
  if m.any (fun kv => lossyName kv.1) then "ok skip lossy" else
  let representable := m.all (fun kv => (enc kv.1).isSome)
  match impl with
  | [_, "err"] =>
    if representable then "FAIL serialize rejected representable names"
    else "ok skip unrepresentable-name rejected"
  | _ :: "ok" :: imgHex :: back =>
    match bytesOfHex imgHex with
    | none => "FAIL unreadable image"
    | some img =>
      if !representable then
        "FAIL serialize accepted a name that has no Shift-JIS representation: " ++
          (match filesOfFields back with
           | some b => if b = m then "the stored name cannot be the input name" else "parse returns different names / contents than the input"
           | none => "and the image does not parse")
      else if !decide (Spec.Pack.ConformsPack enc img m) then
        "FAIL built image is not a pack image of the input files (header count / record / name / body)"
      else if !decide (Spec.Pack.Aligned32 img m.length) then
        "FAIL a file does not start on a 32-byte boundary"
      else match filesOfFields back with
        | some b => if b = m then "ok" else "FAIL parse(serialize m) differs from m"
        | none => "FAIL parse(serialize m) is not ok"
  | _ => "FAIL serialize did not return an image"

/-- Spec oracle for `parse` of a spec-built image with the files it was built from. -/
def oracleParse (img : Bytes) (expect : Option (List (Bytes × Bytes))) (impl : List String) : String :=
  if impl.getD 1 "" == "panic" then "FAIL panic" else
  match expect with
  | none => "ok skip malformed"
  | some m =>
    if !decide (Spec.Pack.DistinctNames m) then "ok skip duplicate-names" else
    if !decide (Spec.Pack.ConformsPack enc img m) then "FAIL generator: image does not conform to the files" else
    match impl with
    | _ :: "ok" :: back =>
      match filesOfFields back with
      | some b => if b = m then "ok" else "FAIL parsed files differ from the files of the conforming image"
      | none => "FAIL unreadable output"
    | _ => "FAIL conforming image rejected"

/-! ### `bigbuild`: large maps regenerated from parameters (same functions as in `pack.rs`) -/

def bigAlpha : Array UInt8 := "abcdefghijklmnopqrstuvwxyz0123456789ABCDE".toUTF8.data

def bigName (i : Nat) : Bytes :=
  let a := fun k => bigAlpha[k]!
  if i < 41 then [a i]
  else if i < 41 + 1681 then let j := i - 41; [a (j / 41), a (j % 41)]
  else let j := i - 1722; [a (j / 1681), a ((j / 41) % 41), a (j % 41)]

def bigBody (i seed : Nat) : Bytes :=
  let h := (i * 2654435761 + seed * 40503 + 12345) % 2 ^ 32
  if h % 3 == 0 then [] else [UInt8.ofNat ((h / 256) % 256)]

def bigFile (seed i : Nat) : Bytes × Bytes := (bigName i, bigBody i seed)

def fnvStep (h : UInt64) (b : UInt8) : UInt64 := (h ^^^ b.toUInt64) * 0x100000001b3

def hex64 (h : UInt64) : String :=
  String.ofList ((List.range 16).map (fun k => hexDigit ((h.toNat >>> (4 * (15 - k))) % 16)))

/-- `(count, fnv64 of names, fnv64 of bodies)` as the harness prints them. -/
def summaryOf (n : Nat) (file : Nat → Bytes × Bytes) : String := Id.run do
  let mut hn : UInt64 := 0xcbf29ce484222325
  let mut hb : UInt64 := 0xcbf29ce484222325
  for i in [0:n] do
    let kv := file i
    for b in kv.1 do hn := fnvStep hn b
    hn := fnvStep hn 0
    for b in leBytes 4 kv.2.length do hb := fnvStep hb b
    for b in kv.2 do hb := fnvStep hb b
  return s!"{n} {hex64 hn} {hex64 hb}"

def summaryOfList (m : List (Bytes × Bytes)) : String :=
  let arr := m.toArray
  summaryOf arr.size (fun i => arr[i]!)

def hexToByteArray (s : String) : Option ByteArray := Id.run do
  if s == "-" then return some ByteArray.empty
  let u := s.toUTF8
  if u.size % 2 != 0 then return none
  let hv := fun (c : UInt8) => if 48 ≤ c && c ≤ 57 then c - 48 else if 97 ≤ c && c ≤ 102 then c - 87 else 255
  let mut out := ByteArray.emptyWithCapacity (u.size / 2)
  for k in [0:u.size / 2] do
    let x := hv (u.get! (2 * k))
    let y := hv (u.get! (2 * k + 1))
    if x == 255 || y == 255 then return none
    out := out.push (x * 16 + y)
  return some out

def modelBig (n seed : Nat) : String :=
  let m := (List.range n).map (bigFile seed)
  match Fe9Arc.serialize sjisSub m with
  | .ok img => "ok " ++ hexOfBytes img ++ " " ++
      (match Fe9Arc.parse sjisSub img with
       | .ok back => summaryOfList back
       | .err _ => "err"
       | .panic => "panic")
  | .err _ => "err"
  | .panic => "panic"

/-- Spec oracle for `bigbuild`: the image conforms and is aligned (linear-time evaluation; up to 300
files also the declarative definition, and both must agree), and the parsed map has the input's
count, names in order and bodies in order. -/
def oracleBig (n seed : Nat) (impl : List String) : String :=
  match impl with
  | _ :: "ok" :: imgHex :: back =>
    match hexToByteArray imgHex with
    | none => "FAIL unreadable image"
    | some img =>
      let fast := Spec.Pack.fastCheck enc img n (bigFile seed)
      let slowDisagrees :=
        if n ≤ 300 then
          let m := (List.range n).map (bigFile seed)
          let l := img.data.toList
          let slow := decide (Spec.Pack.ConformsPack enc l m) && decide (Spec.Pack.Aligned32 l n)
          slow != fast.isNone
        else false
      if slowDisagrees then "FAIL oracle inconsistency: fastCheck and ConformsPack disagree" else
      match fast with
      | some why => "FAIL built image is not an aligned pack image of the input files: " ++ why
      | none =>
        if " ".intercalate back == summaryOf n (bigFile seed) then "ok"
        else "FAIL parse(serialize m) differs from m (count / names in order / bodies in order)"
  | _ => "FAIL serialize did not return an image"

def family : Family where
  State := Unit
  init := ()
  step := fun _ c i =>
    match c with
    | _ :: "build" :: rest =>
      match filesOfFields rest with
      | some m =>
        if m.any (fun kv => lossyName kv.1) then ((), "skip lossy", "ok skip lossy")
        else ((), modelBuild m, oracleBuild m i)
      | none => ((), "bad-case", "FAIL bad-case")
    | [_, "bigbuild", n, seed, mode] =>
      match n.toNat?, seed.toNat? with
      | some n, some seed =>
        -- `oracle` mode: sizes at the top of the domain, where the list-based model is quadratic;
        -- the model line echoes the implementation line and only the specification is judged
        let modelLine := if mode == "model" then modelBig n seed else " ".intercalate (i.drop 1)
        let verdict := oracleBig n seed i
        ((), modelLine, if mode != "model" && verdict == "ok" then "ok oracle-only" else verdict)
      | _, _ => ((), "bad-case", "FAIL bad-case")
    | _ :: "parse" :: imgHex :: rest =>
      match bytesOfHex imgHex with
      | some img =>
        let expect := if rest = ["~"] then some none else (filesOfFields rest).map some
        match expect with
        | some ex => ((), resStr' parsedStr (Fe9Arc.parse sjisSub img), oracleParse img ex i)
        | none => ((), "bad-case", "FAIL bad-case")
      | none => ((), "bad-case", "FAIL bad-case")
    | _ => ((), "bad-case", "FAIL bad-case")

end Driver.Pack
