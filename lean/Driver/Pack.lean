/- Driver family `pack`: C15 — GameCube/Wii pack archive.  (stub: replace `family`) -/
import Driver.Common

namespace Driver.Pack
open Mila

def family : Family where
  State := Unit
  init := ()
  step := fun _ _ _ => ((), "unimplemented", "FAIL unimplemented")

end Driver.Pack
