/- Driver family `pack`: C15 — GameCube/Wii pack archive (`fe9_arc`).
   Case / output formats: see `harness/src/fam/pack.rs`. -/
import Driver.Common
import MilaModel.Model.Fe9Arc
import MilaModel.Spec.PackImage

namespace Driver.Pack
open Mila

/-- `<n> (<name-hex> <body-hex>)*` → files; `none` if malformed. -/
def filesOfFields : List String → Option (List (Bytes × Bytes))
  | [] => none
  | n :: rest =>
    let rec go : Nat → List String → Option (List (Bytes × Bytes))
      | 0, [] => some []
      | 0, _ :: _ => none
      | k + 1, a :: b :: tl => do
        let x ← bytesOfHex a
        let y ← bytesOfHex b
        let r ← go k tl
        pure ((x, y) :: r)
      | _ + 1, _ => none
    match n.toNat? with
    | some k => go k rest
    | none => none

def filesStr (m : List (Bytes × Bytes)) : String :=
  m.foldl (fun s kv => s ++ " " ++ hexOfBytes kv.1 ++ " " ++ hexOfBytes kv.2) (toString m.length)

/-- Error classes are not part of the property: print `err` only. -/
def resStr' {α : Type} (f : α → String) : Res α → String
  | .ok a => "ok " ++ f a
  | .err _ => "err"
  | .panic => "panic"

def enc := sjisSub.enc

/-- Parsed files; `?` when a name lies outside the sub-codec alphabet (corrupted images only). -/
def parsedStr (m : List (Bytes × Bytes)) : String :=
  if m.all (fun kv => (enc kv.1).isSome) then filesStr m else "?"

/-- Model line for `build`: serialize, then parse the produced image. -/
def modelBuild (m : List (Bytes × Bytes)) : String :=
  match Fe9Arc.serialize sjisSub m with
  | .ok img => "ok " ++ hexOfBytes img ++ " " ++
      (match Fe9Arc.parse sjisSub img with
       | .ok back => filesStr back
       | .err _ => "err"
       | .panic => "panic")
  | .err _ => "err"
  | .panic => "panic"

/-- Spec oracle for `build`, judged on the implementation's image and re-parsed map. -/
def oracleBuild (m : List (Bytes × Bytes)) (impl : List String) : String :=
  if !decide (Spec.Pack.DistinctNames m) || m.length > 65535 then "ok skip" else
  match impl with
  | _ :: "ok" :: imgHex :: back =>
    match bytesOfHex imgHex with
    | none => "FAIL unreadable image"
    | some img =>
      if !decide (Spec.Pack.ConformsPack enc img m) then
        "FAIL built image is not a pack image of the input files (header count / record / name / body)"
      else if !decide (Spec.Pack.Aligned32 img m.length) then
        "FAIL a file does not start on a 32-byte boundary"
      else match filesOfFields back with
        | some b => if b = m then "ok" else "FAIL parse(serialize m) differs from m"
        | none => "FAIL parse(serialize m) is not ok"
  | _ => "FAIL serialize did not return an image"

/-- Spec oracle for `parse` of a spec-built image with the files it was built from. -/
def oracleParse (img : Bytes) (expect : Option (List (Bytes × Bytes))) (impl : List String) : String :=
  if impl.getD 1 "" == "panic" then "FAIL panic" else
  match expect with
  | none => "ok skip malformed"
  | some m =>
    if !decide (Spec.Pack.DistinctNames m) then "ok skip duplicate-names" else
    if !decide (Spec.Pack.ConformsPack enc img m) then "FAIL generator: image does not conform to the files" else
    match impl with
    | _ :: "ok" :: back =>
      match filesOfFields back with
      | some b => if b = m then "ok" else "FAIL parsed files differ from the files of the conforming image"
      | none => "FAIL unreadable output"
    | _ => "FAIL conforming image rejected"

def family : Family where
  State := Unit
  init := ()
  step := fun _ c i =>
    match c with
    | _ :: "build" :: rest =>
      match filesOfFields rest with
      | some m => ((), modelBuild m, oracleBuild m i)
      | none => ((), "bad-case", "FAIL bad-case")
    | _ :: "parse" :: imgHex :: rest =>
      match bytesOfHex imgHex with
      | some img =>
        let expect := if rest = ["~"] then some none else (filesOfFields rest).map some
        match expect with
        | some ex => ((), resStr' parsedStr (Fe9Arc.parse sjisSub img), oracleParse img ex i)
        | none => ((), "bad-case", "FAIL bad-case")
      | none => ((), "bad-case", "FAIL bad-case")
    | _ => ((), "bad-case", "FAIL bad-case")

end Driver.Pack
