import Driver.Common
import Driver.Loc
import Driver.Binops
import Driver.Binser
import Driver.Parsers
import Driver.Text
import Driver.Lz
import Driver.Fs
import Driver.Pack
import Driver.Arc
import Driver.Aset
import Driver.Asset
import Driver.Pixel
import Driver.Texc

open Driver

def familyOf : String → Option Family
  | "loc" => some Loc.family
  | "binops" => some Binops.family
  | "binser" => some Binser.family
  | "parsers" => some Parsers.family
  | "text" => some Text.family
  | "lz" => some Lz.family
  | "fs" => some Fs.family
  | "pack" => some Pack.family
  | "arc" => some Arc.family
  | "aset" => some Aset.family
  | "asset" => some Asset.family
  | "pixel" => some Pixel.family
  | "texc" => some Texc.family
  | _ => none

/-- `mila_model <family> <cases.txt> <impl.out> <model.out> <oracle.out>` -/
def main (args : List String) : IO UInt32 := do
  match args with
  | [f, cases, impl, mout, oout] =>
    match familyOf f with
    | none => IO.eprintln s!"unknown family {f}"; return 2
    | some fam =>
      let ch ← IO.FS.Handle.mk cases .read
      let ih ← IO.FS.Handle.mk impl .read
      let mh ← IO.FS.Handle.mk mout .write
      let oh ← IO.FS.Handle.mk oout .write
      runLoop fam (IO.FS.Stream.ofHandle ch) (IO.FS.Stream.ofHandle ih)
        (IO.FS.Stream.ofHandle mh) (IO.FS.Stream.ofHandle oh) fam.init
      mh.flush; oh.flush
      return 0
  | _ => IO.eprintln "usage: mila_model family cases impl model.out oracle.out"; return 2
