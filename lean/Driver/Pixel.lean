/-
Driver family `pixel`: C19 — pixel decoding.

Case lines (harness/src/fam/pixel.rs):
  <id> px <fmt> <w> <h> <payload>          3DS texture through a single-texture CTPK (`ctpk::read`)
  <id> etc <alpha 0|1> <w> <h> <payload>   `mila::decode` (ETC1 / ETC1A4)
  <id> cf <RGBA8|RGB5A3|CI8|Unrecognized> <payload>     `ColorFormat::decode`
  <id> cfi <fmt> <data> <palette>          `ColorFormat::decode_indexed`
  <id> ci8 <w> <h> <palette> <image>       CI8 image + RGB5A3 palette through a single-image TPL
  <id> tplx <fmt> <w> <h> <pal> <image>    any TPL image format through a single-image TPL
  <id> probe <fmt> <w> <h>                 payload-size probe: canonical CTPK with an all-zero payload of
                                           exactly the required size, and the same file one byte shorter
Implementation line: `<id> <dev|release> ok <hex>` | `… err <Class>` | `… panic` (probe: two classes).
The profile is echoed from the implementation line: it selects the model's arithmetic profile.
-/
import Driver.Common
import MilaModel.Model.Containers
import MilaModel.Spec.Morton
import MilaModel.Spec.Linear
import MilaModel.Spec.Etc1Rules
import MilaModel.Spec.TexContainers

namespace Driver.Pixel
open Mila Mila.Pixel

/-! ### fast hex for large payloads -/

def hexNib (c : UInt8) : UInt8 :=
  if c ≥ 48 && c ≤ 57 then c - 48 else if c ≥ 97 && c ≤ 102 then c - 87 else if c ≥ 65 && c ≤ 70 then c - 55 else 0

def bufOfHex (s : String) : Buf := Id.run do
  if s == "-" then return #[]
  let u := s.toUTF8
  let n := u.size / 2
  let mut out : Buf := Array.mkEmpty n
  for i in [0:n] do
    out := out.push (hexNib (u.get! (2 * i)) * 16 + hexNib (u.get! (2 * i + 1)))
  return out

def hexChar (n : UInt8) : Char := if n < 10 then Char.ofNat (48 + n.toNat) else Char.ofNat (87 + n.toNat)

def hexOfBuf (b : Buf) : String := Id.run do
  if b.size == 0 then return "-"
  let mut s : String := ""
  for x in b do
    s := (s.push (hexChar (x / 16))).push (hexChar (x % 16))
  return s

def profileOf (s : String) : Profile := if s == "release" then .wrapping else .checked

def resBuf : Res Buf → String
  | .ok b => "ok " ++ hexOfBuf b
  | .err e => "err " ++ e.name
  | .panic => "panic"

def resClass {α : Type} : Res α → String
  | .ok _ => "ok"
  | .err e => "err." ++ e.name
  | .panic => "panic"

/-! ### the canonical single-texture CTPK of the `px` / `probe` ops (mirrors `pixel.rs::single_ctpk`) -/

def le (k n : Nat) : Buf := (leBytes k n).toArray

def singleCtpk (fmt w h : Nat) (payload : Buf) : Buf :=
  le 4 0x4B505443 ++ le 2 1 ++ le 2 1 ++ le 4 0x44 ++ le 4 payload.size ++ le 4 0 ++ le 4 0 ++ le 8 0 ++
  le 4 0x40 ++ le 4 payload.size ++ le 4 0 ++ le 4 fmt ++ le 2 w ++ le 2 h ++ le 1 1 ++ le 1 0 ++ le 2 0 ++
  le 4 0 ++ le 4 0 ++ #[0x70, 0, 0, 0] ++ payload

/-! ### specification oracles (independent of the model) -/

open Spec.Linear Spec.Morton in
/-- Every pixel of `out` is an admissible rendering of its texel (Z-order placement, per-channel
linear expansion within one step). -/
def judgeTiled (l : Layout) (w h : Nat) (payload out : Buf) : String := Id.run do
  if out.size ≠ 4 * w * h then return s!"FAIL output has {out.size} bytes, expected {4 * w * h}"
  for y in [0:h] do
    for x in [0:w] do
      let v := leAt payload (tileOffset w x y * l.bytes) l.bytes
      let o := (y * w + x) * 4
      if ¬ pixelOk l v (out.getD o 0).toNat (out.getD (o + 1) 0).toNat (out.getD (o + 2) 0).toNat (out.getD (o + 3) 0).toNat then
        return s!"FAIL pixel ({x},{y}) = {hexOfBuf (out.extract o (o + 4))} is not the texel at Z-order offset {tileOffset w x y} (value {v}) within one step"
  return "ok"

open Spec.Etc1 Spec.Morton in
def judgeEtc (alpha : Bool) (w h : Nat) (payload out : Buf) : String := Id.run do
  if out.size ≠ 4 * w * h then return s!"FAIL output has {out.size} bytes, expected {4 * w * h}"
  for y in [0:h] do
    for x in [0:w] do
      let bi := etcBlock w x y
      let word := wordAt payload w alpha x y
      let o := (y * w + x) * 4
      if decide (Legal word) then
        for ch in [0:3] do
          if ((out.getD (o + ch) 0).toNat : Int) ≠ channel word (x % 4) (y % 4) ch then
            return s!"FAIL pixel ({x},{y}) channel {ch} = {(out.getD (o + ch) 0).toNat}, ETC1 rules give {channel word (x % 4) (y % 4) ch} (block {bi}, word {word})"
      if alpha then
        let a := alphaNibble (alphaWordAt payload w alpha x y) (x % 4) (y % 4)
        if ¬ Spec.Linear.withinStep 4 a (out.getD (o + 3) 0).toNat then
          return s!"FAIL pixel ({x},{y}) alpha = {(out.getD (o + 3) 0).toNat}, nibble {a}"
      else if (out.getD (o + 3) 0).toNat ≠ 255 then
        return s!"FAIL pixel ({x},{y}) alpha = {(out.getD (o + 3) 0).toNat}, ETC1 without alpha is opaque"
  return "ok"

open Spec.Linear in
def judgeRgb5a3 (payload out : Buf) : String := Id.run do
  let n := payload.size / 2
  if out.size ≠ 4 * n then return s!"FAIL output has {out.size} bytes, expected {4 * n}"
  for i in [0:n] do
    let v := be16At payload (2 * i)
    let o := 4 * i
    if ¬ pixelOk (rgb5a3Layout v) v (out.getD o 0).toNat (out.getD (o + 1) 0).toNat (out.getD (o + 2) 0).toNat (out.getD (o + 3) 0).toNat then
      return s!"FAIL value {v} decoded to {hexOfBuf (out.extract o (o + 4))}"
  return "ok"

open Spec.Linear Spec.Morton in
def judgeCi8 (w h : Nat) (palette image out : Buf) : String := Id.run do
  if out.size ≠ 4 * w * h then return s!"FAIL output has {out.size} bytes, expected {4 * w * h}"
  for y in [0:h] do
    for x in [0:w] do
      let idx := (image.getD (ci8Offset (pad8 w) x y) 0).toNat
      let v := be16At palette (2 * idx)
      let o := (y * w + x) * 4
      if ¬ pixelOk (rgb5a3Layout v) v (out.getD o 0).toNat (out.getD (o + 1) 0).toNat (out.getD (o + 2) 0).toNat (out.getD (o + 3) 0).toNat then
        return s!"FAIL pixel ({x},{y}) = {hexOfBuf (out.extract o (o + 4))}, palette entry {idx} = {v} (block offset {ci8Offset (pad8 w) x y})"
  return "ok"

/-- `implFields` = id, profile, outcome… -/
def implOk (i : List String) : Option Buf :=
  if i.getD 2 "" == "ok" then some (bufOfHex (i.getD 3 "-")) else none

def inDomain3ds (fmt w h : Nat) (payload : Buf) : Bool :=
  match Spec.Tex.bitsPerPixel fmt with
  | none => false
  | some bits => Spec.Tex.isPow2From8 w && Spec.Tex.isPow2From8 h && w ≤ 1024 && h ≤ 1024 &&
      payload.size * 8 == bits * w * h

def oracle3ds (fmt w h : Nat) (payload : Buf) (i : List String) : String :=
  if !inDomain3ds fmt w h payload then "ok skip"
  else match implOk i with
    | none => "FAIL the decoder must succeed on this input, got " ++ " ".intercalate (i.drop 2)
    | some out =>
      if fmt == 12 then judgeEtc false w h payload out
      else if fmt == 13 then judgeEtc true w h payload out
      else match Spec.Linear.layout fmt with
        | some l => judgeTiled l w h payload out
        | none => "ok skip"

def cfOf : String → Option ColorFormat
  | "RGBA8" => some .RGBA8 | "RGB5A3" => some .RGB5A3 | "CI8" => some .CI8
  | "Unrecognized" => some .Unrecognized | _ => none

def family : Family where
  State := Unit
  init := ()
  step := fun _ c i =>
    let prof := i.getD 1 "dev"
    let p := profileOf prof
    let out (m o : String) : Unit × String × String := ((), prof ++ " " ++ m, o)
    match c with
    | [_, "px", fmt, w, h, payload] =>
      let (fmt, w, h, payload) := (fmt.toNat!, w.toNat!, h.toNat!, bufOfHex payload)
      if payload.size ≠ payloadSize fmt w h then out "bad-case" "ok skip bad-case" else
      out (resBuf (decodePixelData p payload w h fmt)) (oracle3ds fmt w h payload i)
    | [_, "etc", alpha, w, h, payload] =>
      let (alpha, w, h, payload) := (alpha == "1", w.toNat!, h.toNat!, bufOfHex payload)
      out (resBuf (Etc1.decode p payload w h alpha)) (oracle3ds (if alpha then 13 else 12) w h payload i)
    | [_, "cf", f, payload] =>
      match cfOf f with
      | none => out "bad-case" "FAIL bad-case"
      | some cf =>
        let payload := bufOfHex payload
        out (resBuf (cf.decode payload))
          (if cf == .RGB5A3 && payload.size % 2 == 0 then
            match implOk i with
            | some o => judgeRgb5a3 payload o
            | none => "FAIL RGB5A3 values must decode, got " ++ " ".intercalate (i.drop 2)
           else "ok skip")
    | [_, "cfi", f, data, palette] =>
      match cfOf f with
      | none => out "bad-case" "FAIL bad-case"
      | some cf => out (resBuf (cf.decodeIndexed (bufOfHex data) (bufOfHex palette))) "ok skip"
    | [_, "ci8", w, h, palette, image] =>
      let (w, h, palette, image) := (w.toNat!, h.toNat!, bufOfHex palette, bufOfHex image)
      let m := resBuf (tplDecodeImage 2 palette 9 h w image)
      let visibleOk := (List.range h).all fun y => (List.range w).all fun x =>
        (image.getD (Spec.Morton.ci8Offset (Spec.Morton.pad8 w) x y) 0).toNat < palette.size / 2
      let dom := 1 ≤ w && 1 ≤ h && w ≤ 1024 && h ≤ 1024 && palette.size % 2 == 0 &&
        image.size == Spec.Tex.pad h 4 * Spec.Tex.pad w 8 && visibleOk
      out m (if !dom then "ok skip" else
        match implOk i with
        | some o => judgeCi8 w h palette image o
        | none => "FAIL a CI8 image with in-range indices must decode, got " ++ " ".intercalate (i.drop 2))
    | [_, "tplx", fmt, w, h, palette, image] =>
      -- any TPL image format through a single-image TPL (exact-size image data): the parse accepts the
      -- format numbers of `TplImageFormat`, then `extract_textures` decodes (only CI8 succeeds)
      let (fmt, w, h, palette, image) := (fmt.toNat!, w.toNat!, h.toNat!, bufOfHex palette, bufOfHex image)
      -- a format number outside `TplImageFormat` is rejected by the parse whatever the data size
      if !tplImageFormatOk fmt then out "err Other" "ok skip" else
      if image.size ≠ tplImageBytes fmt h w then out "bad-case" "ok skip bad-case" else
      out (resBuf (tplDecodeImage 2 palette fmt h w image)) "ok skip"
    | [_, "probe", fmt, w, h] =>
      let (fmt, w, h) := (fmt.toNat!, w.toNat!, h.toNat!)
      -- the harness computes the required size in integer arithmetic: bits-per-pixel table × w × h / 8
      let need := Pixel.bppTimes2 fmt * w * h / 2
      let full := singleCtpk fmt w h (Buf.zeros need)
      let a := resClass (Containers.ctpkRead p full)
      let b := if need = 0 then "-" else resClass (Containers.ctpkRead p (full.extract 0 (full.size - 1)))
      -- oracle: with exactly the required number of payload bytes a supported texture reads, with one
      -- byte less it must not (the payload is cut)
      let o :=
        if (Spec.Tex.bitsPerPixel fmt).isSome && Spec.Tex.isPow2From8 w && Spec.Tex.isPow2From8 h then
          if i.getD 2 "" == "ok" && (i.getD 3 "").startsWith "err" then "ok"
          else "FAIL payload size: exact size must read, one byte less must be an error; got " ++ " ".intercalate (i.drop 2)
        else "ok skip"
      out (a ++ " " ++ b) o
    | _ => out "bad-case" "FAIL bad-case"

end Driver.Pixel
