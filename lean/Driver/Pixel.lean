/- Driver family `pixel`: C19 — pixel decoding.  (stub: replace `family`) -/
import Driver.Common

namespace Driver.Pixel
open Mila

def family : Family where
  State := Unit
  init := ()
  step := fun _ _ _ => ((), "unimplemented", "FAIL unimplemented")

end Driver.Pixel
