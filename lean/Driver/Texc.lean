/-
Driver family `texc`: C20 — texture containers CTPK / BCH / CGFX / TPL.
Case and implementation lines: see harness/src/fam/texc.rs.
-/
import Driver.Common
import Driver.Pixel
import MilaModel.Model.Containers
import MilaModel.Spec.TexContainers
import MilaModel.Model.Lz
import MilaModel.Spec.LzStream

namespace Driver.Texc
open Mila Mila.Containers Driver.Pixel

def readKind (p : Profile) (kind : String) (d : Buf) : Res (List Texture) :=
  match kind with
  | "ctpk" => ctpkRead p d
  | "bch" => bchRead p d
  | "cgfx" => cgfxRead p d
  | "tpl" => tplRead d
  | _ => .err .Other

def texturesText (ts : List Texture) : String :=
  ts.foldl (fun s t => s ++ " " ++ hexOfBytes t.name ++ " " ++ toString t.width ++ " " ++ toString t.height ++ " " ++
    hexOfBuf t.pixels) (toString ts.length)

def hash2 (s : String) : UInt64 × UInt64 := Id.run do
  let mut h1 : UInt64 := 0xcbf29ce484222325
  let mut h2 : UInt64 := 0x9E3779B97F4A7C15
  for b in s.toUTF8 do
    h1 := (h1 ^^^ b.toUInt64) * 0x100000001b3
    h2 := h2 * 0x2545F4914F6CDD1D + (b.toUInt64 + 1)
    h2 := h2 ^^^ (h2 >>> 29)
  return (h1, h2)

def hex16 (v : UInt64) : String := Id.run do
  let mut s := ""
  for i in [0:16] do
    let nib := (v >>> (UInt64.ofNat (60 - 4 * i))) &&& 0xF
    s := s.push (hexChar nib.toUInt8)
  return s

def classOf (r : Res (List Texture)) : String :=
  match r with
  | .panic => "panic"
  | .err e => "err." ++ e.name
  | .ok ts => let (a, b) := hash2 (texturesText ts); "ok." ++ hex16 a ++ "." ++ hex16 b

def outcome (r : Res (List Texture)) : String :=
  match r with
  | .panic => "panic"
  | .err e => "err " ++ e.name
  | .ok ts => "ok " ++ texturesText ts

/-- lexicographic order on byte strings (Rust's `[u8]::cmp`). -/
def bytesLe : Bytes → Bytes → Bool
  | [], _ => true
  | _ :: _, [] => false
  | a :: as, b :: bs => a < b || (a == b && bytesLe as bs)

/-- `texture_vec_to_map` (layered_filesystem.rs:165-170): collected into a `HashMap` keyed by
`filename` — a later texture with the same name replaces an earlier one — printed sorted by key. -/
def toMap (ts : List Texture) : List Texture :=
  let dedup := ts.foldl (fun acc t => (acc.filter fun u => u.name != t.name) ++ [t]) []
  dedup.mergeSort (fun a b => bytesLe a.name b.name)

/-- `LayeredFilesystem::read_{ctpk,bch,cgfx}_textures` = the direct reader collected into a map;
`read_tpl_textures` = the direct reader. -/
def fsOutcome (kind : String) (r : Res (List Texture)) : String :=
  match r with
  | .panic => "panic"
  | .err e => "err " ++ e.name
  | .ok ts =>
    if kind == "tpl" then
      (ts.zipIdx.foldl (fun s (t, i) => s ++ " " ++ toString i ++ " " ++ hexOfBytes t.name ++ " " ++ toString t.width ++ " " ++
        toString t.height ++ " " ++ hexOfBuf t.pixels) ("ok " ++ toString ts.length))
    else
      let m := toMap ts
      m.foldl (fun s t => s ++ " " ++ hexOfBytes t.name ++ " " ++ hexOfBytes t.name ++ " " ++ toString t.width ++ " " ++
        toString t.height ++ " " ++ hexOfBuf t.pixels) ("ok " ++ toString m.length)

def prefixRuns (p : Profile) (kind : String) (file : Buf) : String := Id.run do
  let mut runs : Array (Nat × Nat × String) := #[]
  for k in [0:file.size] do
    let c := classOf (readKind p kind (file.extract 0 k))
    match runs.back? with
    | some (a, _, c') => if c' == c then runs := runs.pop.push (a, k, c) else runs := runs.push (k, k, c)
    | none => runs := runs.push (k, k, c)
  if runs.isEmpty then return "-"
  return ",".intercalate (runs.toList.map fun (a, b, c) => s!"{a}-{b}:{c}")

/-- the texture descriptions of a case line: 8 fields per texture. -/
def parseTexs (kind : String) (file : Buf) : List String → List (Spec.Tex.Tex × Nat × Nat × Nat × Nat)
  | name :: w :: h :: fmt :: po :: pl :: qo :: ql :: rest =>
    let nm := hexOrBad name
    let (po, pl, qo, ql) := (po.toNat!, pl.toNat!, qo.toNat!, ql.toNat!)
    let stored := if kind == "ctpk" then (Sjis.enc nm).getD [0] else nm
    (⟨nm, stored, w.toNat!, h.toNat!, fmt.toNat!, file.extract po (po + pl), file.extract qo (qo + ql)⟩, po, pl, qo, ql)
      :: parseTexs kind file rest
  | _ => []

def conforms (kind : String) (file : Buf) (texs : List Spec.Tex.Tex) : Bool :=
  match kind with
  | "ctpk" => Spec.Tex.ConformsCtpk (decodeName .sjis) file texs
  | "bch" => Spec.Tex.ConformsBch file texs
  | "cgfx" => Spec.Tex.ConformsCgfx file texs
  | "tpl" => Spec.Tex.ConformsTpl file texs
  | _ => false

/-- The offsets the specification assigns to the payloads agree with the extents the generator reports. -/
def extentsAgree (kind : String) (file : Buf) (exts : List (Nat × Nat × Nat × Nat)) : Bool :=
  (List.range exts.length).all fun i =>
    let (po, _, qo, _) := exts.getD i (0, 0, 0, 0)
    match kind with
    | "ctpk" => Spec.Tex.ctpkPayloadAt file i == po
    | "bch" => Spec.Tex.bchPayloadAt file i == po
    | "cgfx" => Spec.Tex.cgfxPayloadAt file i == po
    | "tpl" => Spec.Tex.tplPayloadAt file i == po && Spec.Tex.tplPaletteAt file i == qo
    | _ => false

def n2Ambiguous (kind : String) (file : Buf) : Bool :=
  kind == "bch" && (Spec.Tex.bchExtended (Spec.Tex.u8At file 4)).isNone

/-- impl fields after `ok <n>`: 4 per texture. -/
def judgeTextures (kind : String) : List Spec.Tex.Tex → List String → String
  | [], [] => "ok"
  | t :: ts, name :: w :: h :: px :: rest =>
    if hexOrBad name ≠ t.name then s!"FAIL texture name {name}, packed name {hexOfBytes t.name}"
    else if w.toNat! ≠ t.width ∨ h.toNat! ≠ t.height then s!"FAIL dimensions {w}x{h}, packed {t.width}x{t.height}"
    else
      let out := bufOfHex px
      let v :=
        if kind == "tpl" then judgeCi8 t.width t.height t.palette t.payload out
        else if t.format == 12 then judgeEtc false t.width t.height t.payload out
        else if t.format == 13 then judgeEtc true t.width t.height t.payload out
        else match Spec.Linear.layout t.format with
          | some l => judgeTiled l t.width t.height t.payload out
          | none => "FAIL unsupported format in a conforming case"
      if v == "ok" then judgeTextures kind ts rest else v
  | _, _ => "FAIL texture count differs from the packed list"

/-- impl fields after `ok <n>`: 5 per texture (key, filename, w, h, pixels): the key must equal the
texture's own `filename` (TPL: the index), and the remaining four fields are judged as for `read`. -/
def judgeFsEntries (kind : String) : Nat → List Spec.Tex.Tex → List String → String
  | _, [], [] => "ok"
  | i, t :: ts, key :: name :: w :: h :: px :: rest =>
    if kind == "tpl" && key != toString i then s!"FAIL texture {i} reported at position {key}"
    else if kind != "tpl" && key != name then s!"FAIL map key {key} but the texture's filename is {name}"
    else
      let v := judgeTextures kind [t] [name, w, h, px]
      if v == "ok" then judgeFsEntries kind (i + 1) ts rest else v
  | _, _, _ => "FAIL texture count differs from the packed list"

def badMagic (kind : String) (file : Buf) : Bool :=
  match kind with
  | "bch" => file.size ≥ 4 && Spec.Tex.u32At file 0 != 0x484342
  | "cgfx" => file.size ≥ 4 && Spec.Tex.u32At file 0 != 0x58464743
  | "tpl" => file.size ≥ 4 && Spec.Tex.be32 file 0 != 0x0020AF30
  | _ => false

/-- parse `a-b:class,…` -/
def parseRuns (s : String) : List (Nat × Nat × String) :=
  if s == "-" then [] else
  (s.splitOn ",").filterMap fun r =>
    match r.splitOn ":" with
    | [ab, c] => match ab.splitOn "-" with
      | [a, b] => some (a.toNat!, b.toNat!, c)
      | _ => none
    | _ => none

def judgePrefixes (exts : List (Nat × Nat × Nat × Nat)) (fileSize : Nat) (runs : List (Nat × Nat × String)) : String := Id.run do
  -- the runs must cover 0..fileSize-1 contiguously
  let mut next := 0
  for (a, b, c) in runs do
    if a ≠ next ∨ b < a then return s!"FAIL prefix report not contiguous at {a}"
    next := b + 1
    if c == "panic" then return s!"FAIL panic on the prefix of length {a}"
    if !c.startsWith "err" then
      for (po, pl, qo, ql) in exts do
        if Spec.Tex.cuts a po pl then return s!"FAIL prefix of length {a} cuts the payload at {po}+{pl} but reads as {c}"
        if Spec.Tex.cuts a qo ql then return s!"FAIL prefix of length {a} cuts the palette at {qo}+{ql} but reads as {c}"
  if next ≠ fileSize then return s!"FAIL prefix report ends at {next}, file has {fileSize} bytes"
  return "ok"

def family : Family where
  State := Unit
  init := ()
  step := fun _ c i =>
    let prof := i.getD 1 "dev"
    let p := profileOf prof
    let out (m o : String) : Unit × String × String := ((), prof ++ " " ++ m, o)
    match c with
    | _ :: op :: kind :: fileHex :: n :: rest =>
      let file := bufOfHex fileHex
      let claimed := n != "~"
      let parsed := if claimed then parseTexs kind file rest else []
      let texs := parsed.map (·.1)
      let exts := parsed.map (·.2)
      let inSpec := claimed && !n2Ambiguous kind file
      let specOk := conforms kind file texs && extentsAgree kind file exts && texs.length == n.toNat!
      if op == "read" then
        let m := outcome (readKind p kind file)
        let o :=
          if !claimed then
            if badMagic kind file then
              (if i.getD 2 "" == "err" then "ok" else "FAIL wrong magic must be rejected, got " ++ " ".intercalate ((i.drop 2).take 2))
            else "ok skip"
          else if !inSpec then "ok skip N2"
          else if !specOk then "FAIL generated file does not satisfy the container specification (harness/spec disagreement)"
          else if i.getD 2 "" != "ok" then "FAIL a conforming container must be read, got " ++ " ".intercalate ((i.drop 2).take 2)
          else if (i.getD 3 "").toNat! ≠ texs.length then s!"FAIL {i.getD 3 ""} textures returned, {texs.length} packed"
          else judgeTextures kind texs (i.drop 4)
        out m o
      else if op == "fsread" then
        -- c = id :: "fsread" :: kind :: loc :: file :: n :: texs…
        let file := bufOfHex n
        let n' := rest.headD "~"
        let claimed := n' != "~"
        let parsed := if claimed then parseTexs kind file (rest.drop 1) else []
        let texs := parsed.map (·.1)
        let exts := parsed.map (·.2)
        let m := fsOutcome kind (readKind p kind file)
        let names := texs.map (·.name)
        let o :=
          if !claimed then
            (if badMagic kind file then (if i.getD 2 "" == "err" then "ok" else "FAIL wrong magic must be rejected, got " ++ " ".intercalate ((i.drop 2).take 2)) else "ok skip")
          else if n2Ambiguous kind file then "ok skip N2"
          else if !(conforms kind file texs && extentsAgree kind file exts && texs.length == n'.toNat!) then
            "FAIL generated file does not satisfy the container specification (harness/spec disagreement)"
          else if kind != "tpl" && names.eraseDups.length != names.length then "ok skip duplicate names"
          else if i.getD 2 "" != "ok" then "FAIL a conforming container must be read, got " ++ " ".intercalate ((i.drop 2).take 2)
          else if (i.getD 3 "").toNat! ≠ texs.length then s!"FAIL {i.getD 3 ""} textures returned, {texs.length} packed"
          else
            let sorted := if kind == "tpl" then texs else texs.mergeSort (fun a b => bytesLe a.name b.name)
            judgeFsEntries kind 0 sorted (i.drop 4)
        out m o
      else if op == "fsseq" then
        -- c = id :: "fsseq" :: kind :: game :: lang :: ext :: loc :: mode :: fileA :: fileB :: n :: texs…
        -- (write then read on one filesystem object: what was written last is what is read; compress /
        --  decompress are inverse by C08/C09/C11)
        let fileA := bufOfHex (rest.getD 3 "-")
        let fileB := bufOfHex (rest.getD 4 "-")
        let n' := rest.getD 5 "~"
        let parsed := parseTexs kind fileB (rest.drop 6)
        let texs := parsed.map (·.1)
        let exts := parsed.map (·.2)
        let firstOf (r : Res (List Texture)) : String :=
          match r with
          | .ok ts => "ok." ++ toString (if kind == "tpl" then ts.length else (toMap ts).length)
          | .err e => "err." ++ e.name
          | .panic => "panic"
        let mode := rest.getD 2 "0"
        let r1 := firstOf (readKind p kind (if mode == "0" then fileA else fileB))
        let m := r1 ++ " " ++ fsOutcome kind (readKind p kind fileB)
        let names := texs.map (·.name)
        let j := i.take 2 ++ i.drop 3   -- drop the first-read token: the rest is an ordinary `fsread` line
        let o :=
          if n2Ambiguous kind fileB then "ok skip N2"
          else if !(conforms kind fileB texs && extentsAgree kind fileB exts && texs.length == n'.toNat!) then
            "FAIL generated file does not satisfy the container specification (harness/spec disagreement)"
          else if kind != "tpl" && names.eraseDups.length != names.length then "ok skip duplicate names"
          else if j.getD 2 "" != "ok" then "FAIL the container written last must be read, got " ++ " ".intercalate ((j.drop 2).take 2)
          else if (j.getD 3 "").toNat! ≠ texs.length then s!"FAIL {j.getD 3 ""} textures returned, {texs.length} in the container written last"
          else
            let sorted := if kind == "tpl" then texs else texs.mergeSort (fun a b => bytesLe a.name b.name)
            let v := judgeFsEntries kind 0 sorted (j.drop 4)
            if v == "ok" then "ok" else v ++ " (after write A, read, write B, read: the container written last is B)"
        out m o
      else if op == "fsreadz" then
        -- c = id :: "fsreadz" :: kind :: loc :: game :: ext :: stored :: file :: n :: texs…
        let game := n
        let ext := rest.getD 0 ""
        let stored := bufOfHex (rest.getD 1 "-")
        let file := bufOfHex (rest.getD 2 "-")
        let n' := rest.getD 3 "~"
        let claimed := n' != "~"
        let parsed := if claimed then parseTexs kind file (rest.drop 4) else []
        let texs := parsed.map (·.1)
        let exts := parsed.map (·.2)
        -- layered_filesystem.rs: the game fixes the compression format; a file whose name has the
        -- format's suffix is decompressed on read, any other file is read as it is
        let fmt : Lz.Format := if game == "FE9" || game == "FE10" then .lz10 else .lz13
        let compressed := fmt.isCompressedFilename ("d/tex.bin" ++ ext).toUTF8.toList
        let m :=
          if compressed then
            match fmt.decompress stored.toList with
            | .ok d => fsOutcome kind (readKind p kind d)
            | .err e => "err " ++ e.name
            | .panic => "panic"
          else fsOutcome kind (readKind p kind stored)
        -- specification side: `stored` is a well-formed stream of the game's format that expands to `file`
        let body : Bytes := if fmt == .lz13 then (if stored.getD 0 0 == 0x13 && stored.size ≥ 4 then stored.toList.drop 4 else []) else stored.toList
        let encodes := compressed &&
          (match Spec.Lz.parse body with
           | .ok (e, n0, toks) => e == (fmt == .lz13) && n0 == file.size && Spec.Lz.validB e toks &&
               (Spec.Lz.expandFrom (Array.emptyWithCapacity n0) toks) == file
           | .error _ => false)
        let names := texs.map (·.name)
        let o :=
          if !claimed then "ok skip"
          else if n2Ambiguous kind file then "ok skip N2"
          else if !encodes then "ok skip the stored bytes are not a well-formed stream of the file"
          else if !(conforms kind file texs && extentsAgree kind file exts && texs.length == n'.toNat!) then
            "FAIL generated file does not satisfy the container specification (harness/spec disagreement)"
          else if kind != "tpl" && names.eraseDups.length != names.length then "ok skip duplicate names"
          else if i.getD 2 "" != "ok" then "FAIL a conforming container stored compressed must be read, got " ++ " ".intercalate ((i.drop 2).take 2)
          else if (i.getD 3 "").toNat! ≠ texs.length then s!"FAIL {i.getD 3 ""} textures returned, {texs.length} packed"
          else
            let sorted := if kind == "tpl" then texs else texs.mergeSort (fun a b => bytesLe a.name b.name)
            judgeFsEntries kind 0 sorted (i.drop 4)
        out m o
      else if op == "prefixes" then
        let m := prefixRuns p kind file
        let o :=
          if !inSpec then "ok skip N2"
          else if !specOk then "FAIL generated file does not satisfy the container specification (harness/spec disagreement)"
          else judgePrefixes exts file.size (parseRuns (i.getD 2 "-"))
        out m o
      else out "bad-case" "FAIL bad-case"
    | _ => out "bad-case" "FAIL bad-case"

end Driver.Texc
