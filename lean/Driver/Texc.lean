/- Driver family `texc`: C20 — texture containers.  (stub: replace `family`) -/
import Driver.Common

namespace Driver.Texc
open Mila

def family : Family where
  State := Unit
  init := ()
  step := fun _ _ _ => ((), "unimplemented", "FAIL unimplemented")

end Driver.Texc
