/- Driver family `fs`: C12 C13 — layered filesystem.  (stub: replace `family`) -/
import Driver.Common

namespace Driver.Fs
open Mila

def family : Family where
  State := Unit
  init := ()
  step := fun _ _ _ => ((), "unimplemented", "FAIL unimplemented")

end Driver.Fs
