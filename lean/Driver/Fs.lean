/-
Driver family `fs`: C12 C13 (+ filesystem clause of C14) — layered filesystem.

Per case the driver keeps (a) the model state (`Mila.LayeredFs.Fs`), (b) the codec table sent with
the `new` line (the graph of mila's compress / decompress / typed parsers on the byte strings that
can occur in the case: the model's abstract `Env` is instantiated with it), and (c) for the oracle
the *implementation's* directory walks after the previous operation plus the payloads written so
far.  The oracle never looks at the model: it judges the implementation's return value and walks
with `Mila.Spec.Overlay` and the `Spec.Loc` table.
-/
import Driver.Common
import MilaModel.Model.LayeredFs
import MilaModel.Spec.OverlayFs
import MilaModel.Spec.LzStream

namespace Driver.Fs
open Mila Mila.LayeredFs

/-! ### codec table -/

structure Rec where
  bytes : Bytes
  cz : Option Bytes
  dz : Option Bytes
  digs : List String

def parseRec (s : String) : Option Rec :=
  match s.splitOn "," with
  | h :: cz :: dz :: digs =>
    match bytesOfHex h with
    | none => none
    | some b =>
      let c := if cz == "!" then none else bytesOfHex cz
      let d := if dz.startsWith "o" then bytesOfHex (dz.drop 1).toString else none
      some ⟨b, c, d, digs⟩
  | _ => none

abbrev Table := List Rec

def Table.find (t : Table) (b : Bytes) : Option Rec := t.find? (fun r => r.bytes == b)

def digRes (d : Option String) : Res String :=
  match d with
  | none => .panic                      -- byte string outside the table: made visible as a mismatch
  | some "!" => .err .Invalid
  | some "p" => .panic
  | some s => .ok s

def tableLz (t : Table) : Lz where
  compress := fun b => match t.find b with
    | some r => (match r.cz with | some c => .ok c | none => .err .Decoding)
    | none => .panic
  decompress := fun b => match t.find b with
    | some r => (match r.dz with | some c => .ok c | none => .err .Decoding)
    | none => .panic

def digAt (t : Table) (i : Nat) (b : Bytes) : Res String := digRes ((t.find b).bind (fun r => r.digs[i]?))

/-- The model's abstract environment, instantiated with the case's table.  Typed values are
digests; the typed archives handed to `write_archive` are their serialisations (from field `A`). -/
def envOf (t : Table) (arch : List (Option Nat)) : Env where
  lz10 := tableLz t
  lz13 := tableLz t
  Bin := String
  Txt := String
  Pack := String
  Arc := String
  Tex := String
  binParse := fun e b => digAt t (match e with | .big => 0 | .little => 1) b
  binSer := fun a => match (a.drop 1).toString.toNat? with
    | some k => (match arch.getD k none with | some i => (match t[i]? with | some r => .ok r.bytes | none => .panic) | none => .err .Invalid)
    | none => .panic
  txtParse := fun f e b => digAt t (match f, e with
    | .shiftJis, .big => 2 | .shiftJis, .little => 3 | .unicode, .big => 4 | .unicode, .little => 5) b
  txtSer := fun a => match (a.drop 1).toString.toNat? with
    | some k => (match arch.getD k none with | some i => (match t[i]? with | some r => .ok r.bytes | none => .panic) | none => .err .Invalid)
    | none => .panic
  packParse := digAt t 6
  arcParse := digAt t 7
  tplParse := digAt t 8
  bchParse := digAt t 9
  ctpkParse := digAt t 10
  cgfxParse := digAt t 11

/-! ### parsing -/

def gameOf : String → Option GameId
  | "FE9" => some .FE9 | "FE10" => some .FE10 | "FE11" => some .FE11 | "FE12" => some .FE12
  | "FE13" => some .FE13 | "FE14" => some .FE14 | "FE15" => some .FE15 | _ => none
def specGame : GameId → Option Spec.Loc.Game
  | .FE9 => some .FE9 | .FE10 => some .FE10 | .FE13 => some .FE13 | .FE14 => some .FE14
  | .FE15 => some .FE15 | _ => none
def langOf : String → Option Localize.Language
  | "EnglishNA" => some .EnglishNA | "EnglishEU" => some .EnglishEU | "Japanese" => some .Japanese
  | "Spanish" => some .Spanish | "French" => some .French | "Italian" => some .Italian
  | "German" => some .German | "Dutch" => some .Dutch | _ => none
def specLang : Localize.Language → Spec.Loc.Language
  | .EnglishNA => .EnglishNA | .EnglishEU => .EnglishEU | .Japanese => .Japanese
  | .Spanish => .Spanish | .French => .French | .Italian => .Italian | .German => .German
  | .Dutch => .Dutch

def compsOf (p : Bytes) : List Bytes := (splitOn' Localize.slash p).filter (fun c => !c.isEmpty)

def pidx (s : String) : Option Nat := (s.drop 1).toString.toNat?

/-- `hexpath:d` / `hexpath:f:p<i>` entries of a `new` line. -/
def parseTree (t : Table) (s : String) : Layer :=
  if s == "-" then [] else
  (s.splitOn ",").filterMap (fun e =>
    match e.splitOn ":" with
    | [p, "d"] => some (compsOf (hexOrBad p), Node.dir)
    | [p, "f", i] => (pidx i).bind (fun i => t[i]?.map (fun r => (compsOf (hexOrBad p), Node.file r.bytes)))
    | _ => none)

/-- `hexpath:d` / `hexpath:f:<hex>` entries of an implementation walk. -/
def parseWalk (s : String) : Spec.Overlay.Walk :=
  if s == "-" then [] else
  (s.splitOn ",").filterMap (fun e =>
    match e.splitOn ":" with
    | [p, "d"] => some (compsOf (hexOrBad p), Spec.Overlay.Kind.dir)
    | [p, "f", h] => some (compsOf (hexOrBad p), Spec.Overlay.Kind.file (hexOrBad h))
    | _ => none)

def layerWalk (l : Layer) : Spec.Overlay.Walk :=
  l.map (fun e => (e.1, match e.2 with | .dir => .dir | .file b => .file b))

/-! ### printing the model state -/

def showLayer (l : Layer) : String :=
  if l.isEmpty then "-" else
  let es := (l.map (fun e => (render e.1, e.2))).mergeSort (fun a b => Fs.leB a.1 b.1)
  ",".intercalate (es.map (fun e => match e.2 with
    | .dir => hexOfBytes e.1 ++ ":d"
    | .file b => hexOfBytes e.1 ++ ":f:" ++ hexOfBytes b))

def showLayers (ls : List Layer) : String := " |" ++ String.join (ls.map (fun l => " " ++ showLayer l))

def unitStr : Res Unit → String
  | .ok () => "ok"
  | .err e => "err " ++ e.name
  | .panic => "panic"

def hexList (xs : List Bytes) : String := if xs.isEmpty then "-" else ",".intercalate (xs.map hexOfBytes)

/-! ### case state -/

structure CaseSt where
  id : String
  game : GameId
  lang : Localize.Language
  table : Table
  arch : List (Option Nat)
  fs : Option Fs                                       -- model state; `none` when the model's `new` failed
  walks : List Spec.Overlay.Walk                       -- implementation's walks after the previous line
  implLive : Bool                                      -- the implementation's `new` succeeded
  written : List (Spec.Overlay.Path × Bool × Bytes)    -- (location, suffix flag) ↦ last payload written
  rw : List (Nat × String × Option Nat) := []          -- re-encoding graph: (payload, kind+edit) ↦ payload / `!`

abbrev State := Option CaseSt

/-- `r<i>.<kind><edit>=p<j>` / `=!` entries appended to the `A` field. -/
def parseRw (s : String) : List (Nat × String × Option Nat) :=
  (s.splitOn ",").filterMap (fun e =>
    if e.startsWith "r" then
      match (e.drop 1).toString.splitOn "=" with
      | [lhs, rhs] =>
        match lhs.splitOn "." with
        | [i, ke] => i.toNat?.map (fun i => (i, ke, pidx rhs))
        | _ => none
      | _ => none
    else none)

/-- Result of read → edit → serialize for the bytes `b` (abstract codec, from the table). -/
def reencoded (st : CaseSt) (b : Bytes) (ke : String) : Option (Option Bytes) :=
  match st.table.findIdx? (fun r => r.bytes == b) with
  | none => none
  | some i =>
    match st.rw.find? (fun e => e.1 == i && e.2.1 == ke) with
    | none => none
    | some e =>
      match e.2.2 with
      | none => some none
      | some j => (st.table[j]?).map (fun r => some r.bytes)

/-! ### the model side -/

def loc? (s : String) : Bool := s == "1"

def modelStep (st : CaseSt) (fs : Fs) (c : List String) : Fs × String :=
  let E := envOf st.table st.arch
  let arg := fun (i : Nat) => c.getD i "-"
  let path := hexOrBad (arg 2)
  match c.getD 1 "" with
  | "write" =>
    match (pidx (arg 3)).bind (fun i => st.table[i]?) with
    | some r => let (fs', o) := fs.write E path r.bytes (loc? (arg 4)); (fs', unitStr o)
    | none => (fs, "bad-payload")
  | "read" => (fs, resStr hexOfBytes (fs.read E path (loc? (arg 3))))
  | "exists" => (fs, resStr (fun b => if b then "1" else "0") (fs.exists_ path (loc? (arg 3))))
  | "file_exists" => (fs, resStr (fun b => if b then "1" else "0") (fs.fileExists path (loc? (arg 3))))
  | "directory_exists" => (fs, resStr (fun b => if b then "1" else "0") (fs.directoryExists path (loc? (arg 3))))
  | "create_dir" => let (fs', o) := fs.createDir path (loc? (arg 3)); (fs', unitStr o)
  | "resolve" =>
    match fs.resolve path (loc? (arg 3)) with
    | none => (fs, "ok ~")
    | some (i, a) => (fs, "ok L" ++ toString i ++ ":" ++ hexOfBytes a)
  | "list" =>
    let pat := if arg 3 == "~" then none else some (hexOrBad (arg 3))
    match fs.list path pat (loc? (arg 4)) with
    | .ok xs =>
      let bits := String.ofList (xs.map (fun x => match fs.exists_ x false with | .ok true => '1' | _ => '0'))
      (fs, "ok " ++ hexList xs ++ " " ++ (if xs.isEmpty then "-" else bits))
    | .err e => (fs, "err " ++ e.name)
    | .panic => (fs, "panic")
  | "subdirs" =>
    match fs.subdirectories path (loc? (arg 3)) with
    | .ok xs =>
      let bits := String.ofList (xs.map (fun x => match fs.exists_ x false with | .ok true => '1' | _ => '0'))
      (fs, "ok " ++ hexList xs ++ " " ++ (if xs.isEmpty then "-" else bits))
    | .err e => (fs, "err " ++ e.name)
    | .panic => (fs, "panic")
  | "read_archive" => (fs, resStr id (fs.readArchive E path (loc? (arg 3))))
  | "read_text" => (fs, resStr id (fs.readTextArchive E path (loc? (arg 3))))
  | "read_fe9arc" => (fs, resStr id (fs.readFe9Arc E path (loc? (arg 3))))
  | "read_arc" => (fs, resStr id (fs.readArc E path (loc? (arg 3))))
  | "read_tpl" => (fs, resStr id (fs.readTplTextures E path (loc? (arg 3))))
  | "read_bch" => (fs, resStr id (fs.readBchTextures E path (loc? (arg 3))))
  | "read_ctpk" => (fs, resStr id (fs.readCtpkTextures E path (loc? (arg 3))))
  | "read_cgfx" => (fs, resStr id (fs.readCgfxTextures E path (loc? (arg 3))))
  | "write_archive" => let (fs', o) := fs.writeArchive E path (arg 3) (loc? (arg 4)); (fs', unitStr o)
  | "write_text" => let (fs', o) := fs.writeTextArchive E path (arg 3) (loc? (arg 4)); (fs', unitStr o)
  | "rw_text" | "rw_bin" =>
    -- typed read, an edit and the typed write: byte-level read, the (abstract) re-encoding, byte-level write
    let isText := c.getD 1 "" == "rw_text"
    let dst := hexOrBad (arg 3)
    let loc := loc? (arg 5)
    let typed : Res String := if isText then fs.readTextArchive E path loc else fs.readArchive E path loc
    match typed with
    | .err e => (fs, "err " ++ e.name)
    | .panic => (fs, "panic")
    | .ok _ =>
      match fs.read E path loc with
      | .ok b =>
        match reencoded st b ((if isText then "t" else "b") ++ arg 4) with
        | some (some bytes) => let (fs', o) := fs.write E dst bytes loc; (fs', unitStr o)
        | some none => (fs, "err Invalid")
        | none => (fs, "bad-table")
      | .err e => (fs, "err " ++ e.name)
      | .panic => (fs, "panic")
  | "cfg" =>
    let e := match fs.cfg.endian with | .big => "Big" | .little => "Little"
    let t := match fs.cfg.text with | .shiftJis => "ShiftJIS" | .unicode => "Unicode"
    let l := match Localize.localize fs.cfg.localizer fs.lang (bs ['p', '/', 'q']) with
      | .ok x => hexOfBytes x | .err _ => "!" | .panic => "panic"
    (fs, "ok " ++ e ++ " " ++ t ++ " " ++ l)
  | _ => (fs, "bad-op")

/-! ### the oracle side (specification on the implementation's output) -/

open Spec.Overlay in
inductive Target
  | skip                                   -- outside the property's domain
  | mustErr                                -- unsupported game/language pair, path without a final component
  | at (qs : Bytes) (q : Loc)

/-- Where an operation on `path` must look, by the specification's localisation table. -/
def target (g : Spec.Loc.Game) (lang : Spec.Loc.Language) (path : Bytes) (localized : Bool) : Target :=
  if !localized then
    match Spec.Overlay.locOf path with
    | some q => .at path q
    | none => .skip
  else if path = [] then .mustErr
  else
    let pieces := splitOn' Spec.Loc.slash path
    let pieces := if pieces.length ≥ 2 ∧ pieces.getLast? = some [] then pieces.dropLast else pieces
    if pieces.all (fun c => decide (Spec.Loc.Plain c)) then
      match Spec.Loc.expected g lang pieces.dropLast (pieces.getLast?.getD []) with
      | none => .mustErr
      | some qs =>
        match Spec.Overlay.locOf qs with
        | some q => .at qs q
        | none => .skip
    else .skip

structure Impl where
  out : List String                      -- outcome tokens (`ok …`, `err C`, `panic`)
  walks : List Spec.Overlay.Walk

def splitImpl (i : List String) : Option Impl :=
  let body := i.drop 1
  match body.idxOf? "|" with
  | some k => some ⟨body.take k, (body.drop (k + 1)).map parseWalk⟩
  | none => none

def sameWalks (a b : List Spec.Overlay.Walk) : Bool :=
  a.length == b.length && (List.zipWith Spec.Overlay.sameTree a b).all id

def isErr (o : List String) : Bool := o.head? == some "err"
def isOk (o : List String) : Bool := o.head? == some "ok"

/-- Independent judgement of a stored file on a compressed path: the specification's own LZ parser
(`Spec.Lz.parse`, not mila's decompressor) accepts it as a well-formed stream of the game's format
with valid tokens whose expansion has the announced length; the result is that expansion. -/
def specDecode (g : Spec.Loc.Game) (s : Bytes) : Option Bytes :=
  let is13 := match (Spec.Overlay.config g).lz with | .lz13 => true | .lz10 => false
  let body : Option Bytes :=
    if is13 then (match s with | 0x13 :: _ :: _ :: _ :: r => some r | _ => none) else some s
  body.bind (fun b =>
    match Spec.Lz.parse b with
    | .ok (ext, n, toks) =>
      if ext == is13 && Spec.Lz.validB ext toks then
        let out := Spec.Lz.expandFrom (Array.emptyWithCapacity n) toks
        if out.size == n then some out.toList else none
      else none
    | .error _ => none)

/-- Expected outcome of a byte-level read, from the walks: `some (ok bytes)`, `some (err class)`;
`none` = cannot be judged (stored bytes outside the codec table). -/
def expectedRead (st : CaseSt) (g : Spec.Loc.Game) (q : Spec.Overlay.Loc) (path : Bytes) : Option (Except String Bytes) :=
  match Spec.Overlay.topFile st.walks q with
  | none => some (.error "NotFound")
  | some s =>
    if Spec.Overlay.hasCompressedSuffix g path then
      -- a well-formed stream must read as its expansion (judged by the specification's parser);
      -- for anything else the table of mila's decompressor says whether reading fails
      match specDecode g s with
      | some b => some (.ok b)
      | none =>
        match st.table.find s with
        | some r => (match r.dz with | some b => some (.ok b) | none => some (.error "Decoding"))
        | none => none
    else some (.ok s)

def digIndex (g : Spec.Loc.Game) : String → Nat
  | "read_archive" => (match (Spec.Overlay.config g).endian with | .big => 0 | .little => 1)
  | "read_text" => (match (Spec.Overlay.config g).text, (Spec.Overlay.config g).endian with
    | .shiftJis, .big => 2 | .shiftJis, .little => 3 | .utf16, .big => 4 | .utf16, .little => 5)
  | "read_fe9arc" => 6 | "read_arc" => 7 | "read_tpl" => 8 | "read_bch" => 9 | "read_ctpk" => 10
  | "read_cgfx" => 11 | _ => 99

/-- Oracle for a write of payload `b` (already serialised). Returns verdict and the new `written`. -/
def oracleWrite (st : CaseSt) (g : Spec.Loc.Game) (lang : Spec.Loc.Language) (im : Impl)
    (path : Bytes) (b : Bytes) (localized : Bool) : String × List (Spec.Overlay.Path × Bool × Bytes) :=
  let z := Spec.Overlay.hasCompressedSuffix g path
  match target g lang path localized with
  | .skip => ("ok skip", [])       -- out-of-domain write: forget what was written (it may have been replaced)
  | .mustErr =>
    if !isErr im.out then ("FAIL write with an unsupported language / degenerate path must be an error", st.written)
    else if !sameWalks st.walks im.walks then ("FAIL a rejected write changed the layers", st.written)
    else ("ok", st.written)
  | .at _ q =>
    if !Spec.Overlay.lowerUntouched st.walks im.walks then ("FAIL write_frame: a lower layer changed", st.written) else
    match st.walks.getLast?, im.walks.getLast? with
    | some top, some top' =>
      if Spec.Overlay.writable top q then
        if !isOk im.out then ("FAIL write must succeed (top layer can take the file)", st.written) else
        match top'.at q.comps with
        | some (.file s) =>
          let storedOk :=
            if z then
              specDecode g s == some b &&
              (match st.table.find s with | some r => r.dz == some b | none => false)
            else s == b
          if !storedOk then
            ((if z then "FAIL stored file is not a valid compressed stream of the payload" else "FAIL stored bytes differ from the payload"), st.written)
          else if !Spec.Overlay.writtenTop top top' q s then ("FAIL write_frame: top layer changed beyond the file and its parent directories", st.written)
          else ("ok", (q.comps, z, b) :: st.written.filter (fun w => w.1 != q.comps))
        | _ => ("FAIL written file is missing from the top layer", st.written)
      else
        if !isErr im.out then ("FAIL write onto a directory / through a file / with a trailing slash must be an error", st.written)
        else if !Spec.Overlay.onlyAncestorDirsAdded top top' q.comps then ("FAIL a rejected write changed more than parent directories", st.written)
        else ("ok", st.written)
    | _, _ => ("FAIL no layers", st.written)

def boolTok (b : Bool) : String := if b then "1" else "0"

def oracleStep (st : CaseSt) (c : List String) (i : List String) : String × List (Spec.Overlay.Path × Bool × Bytes) :=
  match splitImpl i with
  | none => ("FAIL malformed implementation line", st.written)
  | some im =>
  if im.out.head? == some "panic" then ("FAIL panic", st.written) else
  match specGame st.game with
  | none => ("ok skip", st.written)
  | some g =>
  let lang := specLang st.lang
  let arg := fun (k : Nat) => c.getD k "-"
  let path := hexOrBad (arg 2)
  let op := c.getD 1 ""
  let W := st.written
  let unchanged := sameWalks st.walks im.walks
  let ws := st.walks
  match op with
  | "write" =>
    match (pidx (arg 3)).bind (fun k => st.table[k]?) with
    | some r => oracleWrite st g lang im path r.bytes (loc? (arg 4))
    | none => ("FAIL bad-case", W)
  | "write_archive" | "write_text" =>
    match (pidx (arg 3)).bind (fun k => st.arch[k]?) with
    | some (some k) =>
      (match st.table[k]? with
       | some r => oracleWrite st g lang im path r.bytes (loc? (arg 4))
       | none => ("FAIL bad-case", W))
    | some none => if isErr im.out && unchanged then ("ok", W) else ("FAIL unserialisable archive must be an error", W)
    | none => ("FAIL bad-case", W)
  | "rw_text" | "rw_bin" =>
    let isText := op == "rw_text"
    let loc := loc? (arg 5)
    let dst := hexOrBad (arg 3)
    (match target g lang path loc with
    | .skip => ("ok skip", [])
    | .mustErr => if isErr im.out && unchanged then ("ok", W) else ("FAIL typed read of an unlocalisable path must be an error", W)
    | .at _ q =>
      match expectedRead st g q path with
      | none => ("ok skip stored bytes outside the codec table", [])
      | some (.error _) => if isErr im.out && unchanged then ("ok", W) else ("FAIL typed read must fail when the byte-level read fails", W)
      | some (.ok b) =>
        let k := digIndex g (if isText then "read_text" else "read_archive")
        match (st.table.find b).bind (fun r => r.digs[k]?) with
        | some "!" => if isErr im.out && unchanged then ("ok", W) else ("FAIL typed read: codec rejects these bytes", W)
        | some "p" => ("ok skip codec panics on these bytes", [])
        | none => ("ok skip bytes outside the codec table", [])
        | some _ =>
          match reencoded st b ((if isText then "t" else "b") ++ arg 4) with
          | some (some bytes) => oracleWrite st g lang im dst bytes loc   -- the archive must be written like its serialisation
          | some none => if isErr im.out && unchanged then ("ok", W) else ("FAIL unserialisable archive must be an error", W)
          | none => ("ok skip re-encoding outside the table", []))
  | "create_dir" =>
    (match target g lang path (loc? (arg 3)) with
    | .skip => ("ok skip", W)
    | .mustErr => if isErr im.out && unchanged then ("ok", W) else ("FAIL create_dir: unsupported / degenerate path must be an error and change nothing", W)
    | .at _ q =>
      if !Spec.Overlay.lowerUntouched ws im.walks then ("FAIL write_frame: create_dir changed a lower layer", W) else
      match ws.getLast?, im.walks.getLast? with
      | some top, some top' =>
        if Spec.Overlay.dirCreatable top q then
          if isOk im.out && Spec.Overlay.createdTop top top' q then ("ok", W)
          else ("FAIL create_dir must create exactly the directory and its parents in the top layer", W)
        else if isErr im.out && Spec.Overlay.sameTree top top' then ("ok", W)
        else ("FAIL create_dir through a regular file must be an error and change nothing", W)
      | _, _ => ("FAIL no layers", W))
  | "cfg" =>
    let e := match (Spec.Overlay.config g).endian with | .big => "Big" | .little => "Little"
    let t := match (Spec.Overlay.config g).text with | .shiftJis => "ShiftJIS" | .utf16 => "Unicode"
    let l := match Spec.Loc.expected g lang [bs ['p']] (bs ['q']) with | some x => hexOfBytes x | none => "!"
    if im.out == ["ok", e, t, l] && unchanged then ("ok", W)
    else ("FAIL config_table: expected " ++ e ++ " " ++ t ++ " " ++ l, W)
  | _ =>
  -- every remaining operation is read-only
  if !unchanged then ("FAIL a read-only operation changed the layers", W) else
  let localized := loc? (if op == "list" then arg 4 else arg 3)
  match target g lang path localized with
  | .skip => ("ok skip", W)
  | .mustErr =>
    if op == "resolve" then (if im.out == ["ok", "~"] then ("ok", W) else ("FAIL resolve of an unlocalisable path must be None", W))
    else if isErr im.out then ("ok", W) else ("FAIL unsupported language / degenerate path must be an error", W)
  | .at qs q =>
    match op with
    | "read" =>
      (match expectedRead st g q path with
      | none => ("ok skip stored bytes outside the codec table", W)
      | some (.error cls) =>
        if im.out == ["err", cls] then ("ok", W) else ("FAIL read_top: expected err " ++ cls, W)
      | some (.ok b) =>
        if im.out != ["ok", hexOfBytes b] then ("FAIL read_top: expected the bytes of the highest layer holding the file: " ++ hexOfBytes b, W)
        else
          -- read-after-write: same location, same suffix decision ⇒ the payload written last
          let z := Spec.Overlay.hasCompressedSuffix g path
          match W.find? (fun w => w.1 == q.comps && w.2.1 == z) with
          | some w => if q.dirOnly || w.2.2 == b then ("ok", W) else ("FAIL read_after_write: expected " ++ hexOfBytes w.2.2, W)
          | none => ("ok", W))
    | "exists" => if im.out == ["ok", boolTok (Spec.Overlay.anyExists ws q)] then ("ok", W) else ("FAIL exists_same_search", W)
    | "file_exists" => if im.out == ["ok", boolTok (Spec.Overlay.anyFile ws q)] then ("ok", W) else ("FAIL exists_same_search (file)", W)
    | "directory_exists" => if im.out == ["ok", boolTok (Spec.Overlay.anyDir ws q)] then ("ok", W) else ("FAIL exists_same_search (directory)", W)
    | "resolve" =>
      let e := match Spec.Overlay.topExists ws q with
        | some k => "L" ++ toString k ++ ":" ++ hexOfBytes qs
        | none => "~"
      if im.out == ["ok", e] then ("ok", W) else ("FAIL resolve: expected " ++ e, W)
    | "list" | "subdirs" =>
      let perLayer : Option (List (List Spec.Overlay.Path)) :=
        if op == "subdirs" then some (ws.map (fun w => Spec.Overlay.childDirs w q.comps))
        else
          let pat : Option Spec.Overlay.Pat :=
            if arg 3 == "~" then some .all else
            let p := hexOrBad (arg 3)
            match splitOn' Spec.Loc.slash p with
            | [[0x2A]] => some .children
            | [[0x2A, 0x2A], [0x2A]] => some .all
            | [0x2A :: 0x2E :: ext] => if ext.all (fun b => b != 0x2A) then some (.childrenExt ext) else none
            | [[0x2A, 0x2A], 0x2A :: 0x2E :: ext] => if ext.all (fun b => b != 0x2A) then some (.allExt ext) else none
            | [lit, [0x2A]] => if decide (Spec.Loc.Plain lit) && lit.all (fun b => b != 0x2A) then some (.inDir lit) else none
            | _ => none
          pat.map (fun pt => ws.map (fun w => Spec.Overlay.entriesUnder w q.comps pt))
      (match perLayer with
      | none => ("ok skip pattern outside the family", W)
      | some per =>
        if !isOk im.out then ("FAIL listing must succeed", W) else
        let listed := if im.out.getD 1 "-" == "-" then [] else ((im.out.getD 1 "-").splitOn ",").map hexOrBad
        let bits := im.out.getD 2 "-"
        if !Spec.Overlay.checkSortedUnion per listed then ("FAIL list_spec: not the sorted duplicate-free union of the layers' entries", W)
        else if !(bits == "-" || bits.all (· == '1')) then ("FAIL listed_exists: a listed path does not exist according to exists()", W)
        else if !listed.all (fun x => match Spec.Overlay.locOf x with | some l => Spec.Overlay.anyExists ws l | none => false) then
          ("FAIL listed_exists: a listed path is in no layer", W)
        else ("ok", W))
    | _ =>
      let k := digIndex g op
      if k == 99 then ("FAIL bad-case", W) else
      (match expectedRead st g q path with
      | none => ("ok skip stored bytes outside the codec table", W)
      | some (.error _) => if isErr im.out then ("ok", W) else ("FAIL typed helper must fail when the byte-level read fails", W)
      | some (.ok b) =>
        match (st.table.find b).bind (fun r => r.digs[k]?) with
        | none => ("ok skip bytes outside the codec table", W)
        | some "!" => if isErr im.out then ("ok", W) else ("FAIL typed helper: codec rejects these bytes", W)
        | some "p" => ("ok skip codec panics on these bytes", W)
        | some d => if im.out == ["ok", d] then ("ok", W) else ("FAIL typed helper is not codec(game) ∘ read: expected " ++ d, W))

/-! ### family -/

def stepNew (c i : List String) : State × String × String :=
  let id := c.getD 0 "?"
  match gameOf (c.getD 2 ""), langOf (c.getD 3 ""), (c.getD 4 "").toNat? with
  | some g, some lang, some n =>
    let table : Table := if c.getD 5 "-" == "-" then [] else ((c.getD 5 "").splitOn ";").filterMap parseRec
    let arch : List (Option Nat) := ((c.getD 6 "").splitOn ",").map pidx
    let layers := (List.range n).map (fun k => parseTree table (c.getD (7 + k) "-"))
    let r := LayeredFs.new layers lang g
    let m := (match r with | .ok _ => "ok" | .err e => "err " ++ e.name | .panic => "panic") ++ showLayers layers
    let im := splitImpl i
    let implWalks := match im with | some x => x.walks | none => []
    let implOk := match im with | some x => isOk x.out | none => false
    let expectOk := n > 0 && (specGame g).isSome
    let o :=
      match im with
      | none => "FAIL malformed implementation line"
      | some x =>
        if x.out.head? == some "panic" then "FAIL panic"
        else if expectOk && !implOk then "FAIL new must succeed for a supported game with at least one layer"
        else if !expectOk && !isErr x.out then "FAIL new must fail (no layers / unsupported game)"
        else if !sameWalks (layers.map layerWalk) x.walks then "FAIL new changed the layer directories"
        else "ok"
    (some ⟨id, g, lang, table, arch, r.toOption, implWalks, implOk, [], parseRw (c.getD 6 "")⟩, m, o)
  | _, _, _ => (none, "bad-case", "FAIL bad-case")

def family : Family where
  State := State
  init := none
  step := fun st c i =>
    if c.getD 1 "" == "new" then stepNew c i
    else
      match st with
      | some s =>
        if s.id != c.getD 0 "?" then (st, "nostate", "FAIL bad-case: operation without a `new` line")
        else
          match s.fs with
          | none =>
            -- the model's `new` failed: the implementation must have no filesystem either
            (st, "nostate", if i.getD 1 "" == "nostate" then "ok" else "FAIL operation on a filesystem that must not exist")
          | some fs =>
            let (fs', m) := modelStep s fs c
            let (o, w) :=
              if !s.implLive then ("FAIL the implementation has no filesystem although `new` must succeed", s.written)
              else oracleStep s c i
            let implWalks := match splitImpl i with | some x => x.walks | none => s.walks
            (some { s with fs := some fs', walks := implWalks, written := w }, m ++ showLayers fs'.layers, o)
      | none => (st, "nostate", "FAIL bad-case: operation without a `new` line")

end Driver.Fs
