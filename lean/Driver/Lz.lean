/- Driver family `lz`: C08 C09 C10 C11 — LZ10 / LZ13.

Case lines
  `<id> c10|b10 <period> <input-hex>` LZ10CompressionFormat::compress   → `ok <hex> rt=ok`
  `<id> c13|b13 <period> <input-hex>` LZ13CompressionFormat::compress   → `ok <hex> rt=ok alloc=ok`
  (`c*`: judged against the C08/C09 clauses; `b*`: against the C10 size bounds)
  `<id> n10|n13 <filename-hex>`       is_compressed_filename (struct and enum) → `ok 0|1 w=same`
  Every implementation line ends with `w=same` or `w=<result of the other public entry point>` (see `judgeBoth`).
  `<id> e10|e13 <stream-hex>`         setup step of a second-use sequence (several lines with one id): LZ10 / LZ13
      decompress of a usually malformed stream; printed like d10 / d13, judged only for "no panic"
  `<id> t10|t13 <kind> <n> s<seed>`   as `c*` on a generated input at the top of the domain (`genTop`): 2^24-1, 2^24-2,
      and 2^24, 2^24+1 where only "Ok or Err, no panic" is asked
  `<id> g10|g13 <kind> <r> <m> s<seed> <n>`  as `b*` on a generated periodic input: pattern `genPattern kind r m seed`
      (same splitmix64 as the harness) repeated to `n` bytes; claimed period = pattern length
  `<id> d10|d13|f10|f13 <stream-hex>` LZ10/LZ13/CompressionFormat::decompress → `ok <hex> x=ok` | `err Invalid x=ok` | `panic`
  `<id> h10|h13|hf13 <stream-hex>`    the same entry points (hf13 = CompressionFormat::LZ13), output printed as
                                      `ok n=<len>,fnv=<FNV-1a 64> x=ok` (streams expanding to 16 MiB and more)
`period` is a period the generator claims for the input (0 = none); the oracle re-checks it.
-/
import Driver.Common
import MilaModel.Model.Lz
import MilaModel.Spec.LzStream

namespace Driver.Lz
open Mila Mila.Lz



def baEq (a b : BA) : Bool := a == b

/-- splitmix64 byte stream shared with `harness/src/fam/lz.rs` (`sm_bytes`). -/
def smBytes (seed : UInt64) (len : Nat) : BA := Id.run do
  let mut st := seed
  let mut out : BA := Array.mkEmpty len
  for _ in [0:len] do
    st := st + 0x9E3779B97F4A7C15
    let mut z := st
    z := (z ^^^ (z >>> 30)) * 0xBF58476D1CE4E5B9
    z := (z ^^^ (z >>> 27)) * 0x94D049BB133111EB
    out := out.push (z ^^^ (z >>> 31)).toUInt8
  return out

/-- Patterns of the generated periodic inputs (see `gen_pattern` in the harness). -/
def genPattern (kind r m : Nat) (seed : UInt64) : BA :=
  let pat := smBytes seed r
  if kind == 0 then pat else
  let pat := if m < r && pat.getD m 0 == pat.getD 0 0 then pat.modify m (· ^^^ 0x55) else pat
  let head := pat.extract 0 m
  let tail := pat.extract (r - m) r
  let pat := pat ++ head
  if kind == 2 then pat ++ tail else pat

/-- Inputs at the top of the domain (see `gen_top` in the harness). -/
def genTop (kind n : Nat) (seed : UInt64) : BA :=
  if kind ≥ 2 then
    let t := min (20 + (seed % 1981).toNat) n
    let noise := smBytes seed t
    let run : BA := Array.replicate (n - t) (seed >>> 8).toUInt8
    if kind == 2 then run ++ noise else noise ++ run
  else if kind == 0 then
    let a := seed.toUInt8
    let v := Array.replicate n (a + 1)
    if n > 0 then (v.set! 0 a).set! (n - 1) (a + 2) else v
  else
    let q := 3 + (seed % 38).toNat
    Id.run do
      let pat := smBytes seed q
      let mut out : BA := Array.emptyWithCapacity n
      for i in [0:n] do
        out := out.push (pat.getD (i % q) 0)
      return out

def periodicInput (pat : BA) (n : Nat) : BA := Id.run do
  let mut out : BA := Array.mkEmpty n
  for i in [0:n] do
    out := out.push (pat.getD (i % pat.size) 0)
  return out

/-- Is `p` a period of `x`? -/
def isPeriodic (x : BA) (p : Nat) : Bool :=
  p ≥ 1 && (List.range (x.size - p)).all (fun i => x.getD i 0 == x.getD (i + p) 0)

def ceilDiv (a b : Nat) : Nat := (a + b - 1) / b

/-- C10 bound for an input of `n` bytes with period `p`. -/
def periodicBound (H r L n p : Nat) : Nat :=
  let refs := ceilDiv (n - p) L + 1
  H + (p + 2) + r * refs + ceilDiv ((p + 2) + refs) 8

/-- Strip the 4-byte `0x13` wrapper of an LZ13 output. -/
def body? (is13 : Bool) (out : Bytes) : Option Bytes :=
  if is13 then
    match out with
    | 0x13 :: _ :: _ :: _ :: s => some s
    | _ => none
  else some out

/-- C08 / C09 oracle for a compress case, judged on the implementation's output line: wrapper,
well-formed stream (independent parser), valid tokens, expansion = input, library round trip,
allocation request (LZ13). -/
def oracleCompress (is13 : Bool) (x : BA) (impl : List String) : String :=
  match impl with
  | _ :: "ok" :: outHex :: rest =>
    match bytesOfHex outHex with
    | none => "FAIL unreadable output"
    | some out =>
      let n := x.size
      match body? is13 out with
      | none => "FAIL LZ13 output does not start with a 4-byte 0x13 wrapper"
      | some body =>
        if is13 && !(rest.contains "alloc=ok") then "FAIL C09 allocation request above 13 + n + n/8"
        else if is13 && n == 0 then "ok empty"  -- C09 asks only for Ok/Err without panic on the empty input
        else if n ≥ 2 ^ 24 then "ok skip input of 16 MiB or more"
        else
        match Spec.Lz.parse body with
        | .error e => "FAIL stream is not well-formed: " ++ e.name
        | .ok (ext, n', toks) =>
          if ext != is13 then "FAIL wrong stream type byte"
          else if n' != n then s!"FAIL header length {n'} != input length {n}"
          else if !(Spec.Lz.validB ext toks) then "FAIL invalid token (length/displacement range or reach)"
          else if !(baEq (Spec.Lz.expandFrom (Array.emptyWithCapacity n') toks) /- = expand toks -/ x) then "FAIL independent decoder: expansion differs from the input"
          else if !(rest.contains "rt=ok") then "FAIL library decompress(compress(x)) != x"
          else s!"ok tokens={toks.length}"
  | _ :: "panic" :: _ => "FAIL panic"
  | _ :: "err" :: _ =>
    -- the property is silent for inputs of 16 MiB or more: Ok or Err, no panic
    if x.size ≥ 2 ^ 24 then "ok skip input of 16 MiB or more" else "FAIL compress returned an error"
  | _ => "FAIL unreadable implementation line"

/-- C10 oracle: the two inequalities on the implementation's output. -/
def oracleBounds (is13 : Bool) (p : Nat) (x : BA) (impl : List String) : String :=
  match impl with
  | _ :: "ok" :: outHex :: _ =>
    match bytesOfHex outHex with
    | none => "FAIL unreadable output"
    | some out =>
      let n := x.size
      let H := if is13 then (if n == 0 then 12 else 8) else 4
      if out.length > H + n + ceilDiv n 8 then
        s!"FAIL C10 expansion bound: {out.length} > {H} + {n} + ceil({n}/8)"
      else if p > 0 && p ≤ 4096 && isPeriodic x p then
        let b := if is13 then periodicBound 8 4 4096 n p else periodicBound 4 2 18 n p
        if out.length > b then s!"FAIL C10 periodic bound: period {p}, n {n}: {out.length} > {b}"
        else "ok periodic"
      else "ok"
  | _ :: "panic" :: _ => "FAIL panic"
  | _ => "FAIL compress did not return a stream"

def modelCompress (is13 : Bool) (x : BA) : String :=
  if is13 then
    let (r, req) := compress13 x
    match r with
    | .ok out =>
      let rt := match decompress13 out.toList with
        | .ok y => if baEq y x then "rt=ok" else "rt=bad"
        | _ => "rt=bad"
      let alloc := if req ≤ 13 + x.size + x.size / 8 then "alloc=ok" else "alloc=big"
      "ok " ++ hexOfBytes out.toList ++ " " ++ rt ++ " " ++ alloc ++ " w=same"
    | .err e => "err " ++ e.name ++ " w=same"
    | .panic => "panic"
  else
    match compress10 x with
    | .ok out =>
      let rt := match decompress10 out.toList with
        | .ok y => if baEq y x then "rt=ok" else "rt=bad"
        | _ => "rt=bad"
      "ok " ++ hexOfBytes out.toList ++ " " ++ rt ++ " w=same"
    | .err e => "err " ++ e.name ++ " w=same"
    | .panic => "panic"

/-- FNV-1a (64 bit) of the output, for the cases whose output is too large to print
(`h10|h13|hf13`: 16 MiB and more). -/
def fnv (a : BA) : UInt64 :=
  a.foldl (fun h b => (h ^^^ b.toUInt64) * 0x100000001b3) 0xcbf29ce484222325

/-- How an output is printed: hex, or length and hash for the `h*` ops. -/
def outRepr (summ : Bool) (out : BA) : String :=
  if summ then s!"n={out.size},fnv={(fnv out).toNat}" else hexOfBytes out.toList

def modelDecode (kind : String) (summ : Bool) (s : Bytes) : String :=
  let r := match kind with
    | "d10" => decompress10 s
    | "d13" => decompress13 s
    | "f10" => Format.decompress .lz10 s
    | _ => Format.decompress .lz13 s
  match r with
  | .ok out => "ok " ++ outRepr summ out ++ " x=ok w=same"
  | .err e => "err " ++ e.name ++ " x=ok w=same"
  | .panic => "panic"

/-- What the specification demands of a decoder on the bare stream `s`. -/
def judgeStream (summ : Bool) (s : Bytes) (impl : List String) : String :=
  match Spec.Lz.parse s with
  | .ok (ext, n, toks) =>
    if !(Spec.Lz.validB ext toks) then "FAIL oracle bug: parser accepted invalid tokens" else
    match impl with
    | _ :: "ok" :: got :: _ =>
      -- `expand toks`, started from an empty array that already has the capacity (same value)
      if got == outRepr summ (Spec.Lz.expandFrom (Array.emptyWithCapacity n) toks) then
        s!"ok conforming tokens={toks.length}" ++ (if n ≥ 2 ^ 24 then " extended-length" else "")
      else "FAIL well-formed stream decoded to something other than its expansion"
    | _ => "FAIL well-formed stream was not decoded"
  | .error e =>
    match e with
    | .leftover | .overshoot | .nonCanonical =>
      -- not one of the malformation classes the property lists: only "no panic" is required
      "ok skip " ++ e.name
    | _ =>
      match impl with
      | _ :: "err" :: _ => "ok rejected " ++ e.name
      | _ => "FAIL malformed stream (" ++ e.name ++ ") must be an error"

def oracleDecode (kind : String) (summ : Bool) (s : Bytes) (impl : List String) : String :=
  if impl.getD 1 "" == "panic" then "FAIL panic" else
  if kind == "d13" || kind == "f13" then
    if s.length < 4 then
      (if impl.getD 1 "" == "err" then "ok rejected short" else "FAIL input shorter than a header must be an error")
    else if s.head? == some 0 then
      (if impl.getD 1 "" == "ok" && impl.getD 2 "" == outRepr summ (s.drop 4).toArray then "ok stored"
       else "FAIL stored form must return the bytes after the 4-byte header")
    else if s.head? == some 0x13 then judgeStream summ (s.drop 4) impl
    else judgeStream summ s impl
  else judgeStream summ s impl

/-- Every implementation line ends with `w=same` when the other public entry point (the
`CompressionFormat` enum wrapper for the struct ops, the struct for f10/f13) returned exactly
the same result; otherwise the field carries that other result, and the same oracle judges it
too (model: `Format.compress` / `Format.decompress` *are* the struct functions). -/
def judgeBoth (judge : List String → String) (impl : List String) : String :=
  let v := judge impl
  match impl.find? (·.startsWith "w=") with
  | none => v
  | some w =>
    if w == "w=same" || v.startsWith "FAIL" then v else
    let id := impl.headD "?"
    let r := (w.drop 2).toString
    let impl' :=
      if r == "panic" then [id, "panic"]
      else if r == "err" then [id, "err", "Invalid"]
      else [id, "ok", (r.drop 3).toString, "rt=ok", "alloc=ok", "x=ok"]
    let v' := judge impl'
    if v'.startsWith "FAIL" then "FAIL through CompressionFormat: " ++ (v'.drop 5).toString
    else v ++ " wrapper-differs"

/-- `is_compressed_filename`, written from the documentation: `.cms` / `.cmp` for LZ10, `.lz` for LZ13. -/
def oracleName (lz10 : Bool) (name : String) (impl : List String) : String :=
  let want := if lz10 then name.endsWith ".cms" || name.endsWith ".cmp" else name.endsWith ".lz"
  match impl with
  | [_, "ok", v, "w=same"] => if v == (if want then "1" else "0") then "ok" else "FAIL is_compressed_filename"
  | _ => "FAIL is_compressed_filename differs between the struct and the enum wrapper"

def family : Family where
  State := Unit
  init := ()
  step := fun _ c i =>
    match c with
    | [_, "c10", _, x] =>
      let x := (hexOrBad x).toArray
      ((), modelCompress false x, judgeBoth (oracleCompress false x) i)
    | [_, "c13", _, x] =>
      let x := (hexOrBad x).toArray
      ((), modelCompress true x, judgeBoth (oracleCompress true x) i)
    | [_, "b10", p, x] =>
      let x := (hexOrBad x).toArray
      ((), modelCompress false x, judgeBoth (oracleBounds false p.toNat! x) i)
    | [_, "b13", p, x] =>
      let x := (hexOrBad x).toArray
      ((), modelCompress true x, judgeBoth (oracleBounds true p.toNat! x) i)
    | [_, "t10", kind, n, seed] =>
      let x := genTop kind.toNat! n.toNat! (UInt64.ofNat (seed.drop 1).toString.toNat!)
      ((), modelCompress false x, judgeBoth (oracleCompress false x) i)
    | [_, "t13", kind, n, seed] =>
      let x := genTop kind.toNat! n.toNat! (UInt64.ofNat (seed.drop 1).toString.toNat!)
      ((), modelCompress true x, judgeBoth (oracleCompress true x) i)
    | [_, "g10", kind, r, m, seed, n] =>
      let pat := genPattern kind.toNat! r.toNat! m.toNat! (UInt64.ofNat (seed.drop 1).toString.toNat!)
      let x := periodicInput pat n.toNat!
      ((), modelCompress false x, judgeBoth (oracleBounds false pat.size x) i)
    | [_, "g13", kind, r, m, seed, n] =>
      let pat := genPattern kind.toNat! r.toNat! m.toNat! (UInt64.ofNat (seed.drop 1).toString.toNat!)
      let x := periodicInput pat n.toNat!
      ((), modelCompress true x, judgeBoth (oracleBounds true pat.size x) i)
    | [_, kind, s] =>
      if kind == "d10" || kind == "d13" || kind == "f10" || kind == "f13" then
        let s := hexOrBad s
        ((), modelDecode kind false s, judgeBoth (oracleDecode kind false s) i)
      else if kind == "n10" || kind == "n13" then
        let nameB := hexOrBad s
        let name := String.fromUTF8! (ByteArray.mk nameB.toArray)
        let fmt := if kind == "n10" then Format.lz10 else Format.lz13
        ((), s!"ok {if Format.isCompressedFilename fmt nameB then 1 else 0} w=same", oracleName (kind == "n10") name i)
      else if kind == "e10" || kind == "e13" then
        -- setup step of a second-use sequence (usually a failing decompress): only "no panic" is judged here,
        -- the following steps of the same case id carry the property's oracle
        let s := hexOrBad s
        ((), modelDecode (if kind == "e10" then "d10" else "d13") false s,
          if i.getD 1 "" == "panic" then "FAIL panic" else "ok setup")
      else if kind == "h10" || kind == "h13" || kind == "hf13" then
        -- same entry points, output printed as length + hash (expansions of 16 MiB and more)
        let base := if kind == "h10" then "d10" else if kind == "h13" then "d13" else "f13"
        let s := hexOrBad s
        ((), modelDecode base true s, judgeBoth (oracleDecode base true s) i)
      else ((), "bad-case", "FAIL bad-case")
    | _ => ((), "bad-case", "FAIL bad-case")

end Driver.Lz
