/- Driver family `lz`: C08 C09 C10 C11 — LZ10 / LZ13.  (stub: replace `family`) -/
import Driver.Common

namespace Driver.Lz
open Mila

def family : Family where
  State := Unit
  init := ()
  step := fun _ _ _ => ((), "unimplemented", "FAIL unimplemented")

end Driver.Lz
