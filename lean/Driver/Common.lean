/-
Driver plumbing: a *family* consumes one case line (plus the implementation's output line for
the same case) and produces the model's output line and the spec oracle's verdict on the
implementation's output.  Imports only Mathlib-free modules so the executable links.
-/
import MilaModel.Basic

namespace Driver
open Mila

/-- A property family served by the driver. -/
structure Family where
  State : Type
  init : State
  /-- `step st caseFields implFields = (st', modelOut, oracleVerdict)`.
      `caseFields` = the case line split on spaces (field 0 is the case id);
      `implFields` = the implementation's output line split on spaces (field 0 is the id).
      `modelOut` must reproduce the implementation line *after* the id when model and code agree.
      `oracleVerdict` is `"ok"` or `"FAIL <reason>"` and judges the implementation's output
      against the specification (independent of the model). -/
  step : State → List String → List String → State × String × String

def fields (line : String) : List String :=
  (line.splitOn " ").filter (fun s => !s.isEmpty)

def resStr {α : Type} (f : α → String) : Res α → String
  | .ok a => "ok " ++ f a
  | .err e => "err " ++ e.name
  | .panic => "panic"

def hexOrBad (s : String) : Bytes := (bytesOfHex s).getD []

partial def runLoop (fam : Family) (cases impl : IO.FS.Stream) (mout oout : IO.FS.Stream)
    (st : fam.State) : IO Unit := do
  let line ← cases.getLine
  if line.isEmpty then return ()
  let line := line.trimAscii.toString
  if line.isEmpty || line.startsWith "#" then
    runLoop fam cases impl mout oout st
  else
    let il ← impl.getLine
    let cf := fields line
    let ifs := fields il.trimAscii.toString
    let (st', m, o) := fam.step st cf ifs
    let id := cf.headD "?"
    mout.putStrLn (id ++ " " ++ m)
    oout.putStrLn (id ++ " " ++ o)
    runLoop fam cases impl mout oout st'

end Driver
