/- Driver family `asset`: C18 — asset binaries.  (stub: replace `family`) -/
import Driver.Common

namespace Driver.Asset
open Mila

def family : Family where
  State := Unit
  init := ()
  step := fun _ _ _ => ((), "unimplemented", "FAIL unimplemented")

end Driver.Asset
