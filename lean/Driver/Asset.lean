/-
Driver family `asset` (C18).  Case line
  `<id> asset <header-flags> p:<name>,<s1>,…,<s33>,<t34>,…,<t51>*`
strings: `~` absent, `-` empty, else hex of UTF-8; typed field: `0|1` (use flag) followed by the
8 hex digits of the value's four bytes (u32 / f32 bits little-endian, colour array as is).
Implementation / model line after the id: as for `aset`, the value being `<flags>/p:…/p:…`.
-/
import Driver.Common
import MilaModel.Model.AssetBinary
import MilaModel.Spec.Asset

namespace Driver.Asset
open Mila Mila.Asset

def optOf (s : String) : Option Bytes := if s == "~" then none else some (hexOrBad s)

def showOpt : Option Bytes → String
  | none => "~"
  | some b => hexOfBytes b

def valOf (s : String) : Bool × Bytes := (s.startsWith "1", hexOrBad (s.drop 1).toString)

def hex4 (b : Bytes) : String :=
  String.ofList (b.foldr (fun x acc => hexDigit (x.toNat / 16) :: hexDigit (x.toNat % 16) :: acc) [])

def showVal (v : Bool × Bytes) : String := (if v.1 then "1" else "0") ++ hex4 v.2

def specOf (s : String) : AssetSpec :=
  let parts := ((s.drop 2).toString.splitOn ",")
  ⟨optOf (parts.headD "~"), ((parts.drop 1).take 33).map optOf, (parts.drop 34).map valOf⟩

def showSpec (s : AssetSpec) : String :=
  "p:" ++ ",".intercalate (showOpt s.name :: s.strs.map showOpt ++ s.vals.map showVal)

def showBinary (b : AssetBinary) : String :=
  "/".intercalate (toString b.flags :: b.specs.map showSpec)

/-- `asset <flags> specs…` (through `AssetBinary::serialize`, little-endian) or
`asset-hand LE|BE <flags> specs…` (through the per-record API on an archive of that byte order). -/
def binaryOf (c : List String) : Option (Endian × AssetBinary) :=
  match c with
  | _ :: "asset" :: fl :: specs => some (.little, ⟨fl.toNat?.getD 0, specs.map specOf⟩)
  -- second use: the same round trip after other (failing) calls on the thread — same expected line
  | _ :: "asset-after" :: fl :: specs => some (.little, ⟨fl.toNat?.getD 0, specs.map specOf⟩)
  | _ :: "asset-hand" :: "LE" :: fl :: specs => some (.little, ⟨fl.toNat?.getD 0, specs.map specOf⟩)
  | _ :: "asset-hand" :: "BE" :: fl :: specs => some (.big, ⟨fl.toNat?.getD 0, specs.map specOf⟩)
  | _ => none

def modelOut (e : Endian) (b : AssetBinary) : String :=
  match serializeE sjisSub e b with
  | .panic => "panic"
  | .err _ => "err"
  | .ok bytes =>
    match BinArchive.parse sjisSub e bytes with
    | .ok a =>
      let head := "ok " ++ toString a.size ++ " " ++ hexOfBytes bytes
      match fromArchive a with
      | .ok b' =>
        let re := match serializeE sjisSub e b' with
          | .ok b2 => if b2 = bytes then "same" else hexOfBytes b2
          | .err _ => "err"
          | .panic => "panic"
        head ++ " rr-ok " ++ showBinary b' ++ " " ++ re
      | .err _ => head ++ " rr-err"
      | .panic => head ++ " rr-panic"
    | .err _ => "ok ? " ++ hexOfBytes bytes ++ " rr-err"
    | .panic => "ok ? " ++ hexOfBytes bytes ++ " rr-panic"

def nameOk (n : Option Bytes) : Bool :=
  match n with
  | none => true
  | some s =>
    match sjisSub.enc s with
    | some b => !b.contains 0 && sjisSub.dec b == s
    | none => false

/-- Does `pat` occur in `s`? -/
def hasInfix (pat : Bytes) : Bytes → Bool
  | [] => pat.isEmpty
  | b :: rest => pat.isPrefixOf (b :: rest) || hasInfix pat rest

/-- The three code points Shift-JIS encodes *lossily* (U+00A5, U+203E, U+2212), in UTF-8: outside
the property's quantifier, and the sub-codec model cannot predict their bytes. -/
def lossyName (n : Option Bytes) : Bool :=
  match n with
  | none => false
  | some s => hasInfix [0xC2, 0xA5] s || hasInfix [0xE2, 0x80, 0xBE] s || hasInfix [0xE2, 0x88, 0x92] s

def allNames (b : AssetBinary) : List (Option Bytes) := b.specs.flatMap (fun s => s.name :: s.strs)

def shapeOk (b : AssetBinary) : Bool :=
  decide (b.flags < 2 ^ 32) && b.specs.all (fun s => decide (Spec.Asset.WF s.strs s.vals))

def namesOk (b : AssetBinary) : Bool := (allNames b).all nameOk

def lossy (b : AssetBinary) : Bool := (allNames b).any lossyName

/-- Code points outside the sub-codec that real Shift-JIS may encode (U+4E0A, U+300A, U+FF0A,
U+4E5C, U+4E00, U+4E6E — low byte like '\n', '\\', NUL, 'n'), in UTF-8.  The model cannot encode
them: correspondence skip; the oracle demands refusal or an exact round trip. -/
def foreignName (n : Option Bytes) : Bool :=
  match n with
  | none => false
  | some s => [[0xE4, 0xB8, 0x8A], [0xE3, 0x80, 0x8A], [0xEF, 0xBC, 0x8A], [0xE4, 0xB9, 0x9C],
      [0xE4, 0xB8, 0x80], [0xE4, 0xB9, 0xAE]].any (fun (pat : Bytes) => hasInfix pat s)

def foreign (b : AssetBinary) : Bool := (allNames b).any foreignName

/-- Check the flag bytes of record `k` of the real image against the specification. -/
def recordCheck (k : Nat) (s : AssetSpec) (flags : List Nat) : Option String :=
  let ext := Spec.Asset.extended s.strs s.vals
  if flags.length != Spec.Asset.flagBytes s.strs s.vals then
    some ("short-form: record " ++ toString k ++ " has " ++ toString flags.length ++ " flag bytes, extended=" ++ toString ext)
  else if Spec.Asset.marked flags != ext then
    some ("short-form: record " ++ toString k ++ " marker bit differs from extended=" ++ toString ext)
  else if Spec.Asset.announcedLen flags != Spec.Asset.recordLen s.strs s.vals then
    some ("length: record " ++ toString k ++ " announces " ++ toString (Spec.Asset.announcedLen flags)
      ++ " bytes, the formula gives " ++ toString (Spec.Asset.recordLen s.strs s.vals))
  else
    match (List.range' 1 51).find? (fun i => Spec.Asset.flagAt flags i != Spec.Asset.fieldPresent s.strs s.vals i) with
    | some i => some ("flags: record " ++ toString k ++ " flag bit " ++ toString i ++ " differs from the field's presence")
    | none => none

def recordsCheck : Nat → List AssetSpec → List (List Nat) → Option String
  | k, s :: ss, f :: fs => match recordCheck k s f with
    | some e => some e
    | none => recordsCheck (k + 1) ss fs
  | _, [], [] => none
  | _, _, _ => some "length: record count"

def oracle (e : Endian) (b : AssetBinary) (i : List String) : String :=
  if !shapeOk b then "ok skip out-of-domain" else
  if lossy b then "ok skip lossy-codepoint" else
  -- a string the codec cannot represent: refusing to serialise is fine; but whatever `serialize`
  -- accepts must be re-read exactly (the clauses below)
  if !namesOk b && i.getD 1 "" == "err" then "ok refused" else
  match i with
  | [_, "ok", size, bytes, "rr-ok", value, re] =>
    let img := hexOrBad bytes
    let expect := Spec.Asset.dataSize (b.specs.map (fun s => (s.strs, s.vals)))
    let norm : AssetBinary := ⟨b.flags, b.specs.map (fun s => { s with vals := Spec.Asset.normalizeVals s.vals })⟩
    if size != toString expect then
      "FAIL length: data section is " ++ size ++ " bytes, the formula gives " ++ toString expect
    else if e.dec ((img.drop 4).take 4) != expect then
      "FAIL length: header data-size word differs from the formula " ++ toString expect
    else
      let data := (img.drop 0x20).take expect
      match Spec.Asset.walk data b.specs.length 4 with
      | none => "FAIL length: records run past the data section"
      | some (flags, e) =>
        if e + 4 != expect then "FAIL length: records end at " ++ toString e ++ " of " ++ toString expect
        else match recordsCheck 0 b.specs flags with
          | some err => "FAIL " ++ err
          | none =>
            if value != showBinary norm then "FAIL roundtrip: re-read value differs from the input"
            else if re != "same" then "FAIL idempotent: re-serialising the re-read value gives other bytes"
            else "ok"
  | _ :: "ok" :: _ :: _ :: "rr-diff" :: _ =>
    "FAIL roundtrip: from_archive and record-by-record from_stream return different values"
  | _ :: "ok" :: _ :: _ :: "rr-ok" :: _ :: _ :: "unstable" :: _ =>
    "FAIL roundtrip: the same round trip gives different results after other (failing) calls on the thread"
  | _ :: "panic" :: _ => "FAIL panic"
  | _ :: "err" :: _ => "FAIL serialize failed"
  | _ => "FAIL roundtrip: the serialised file could not be re-read"

def family : Family where
  State := Unit
  init := ()
  step := fun _ c i =>
    match binaryOf c with
    | some (e, b) =>
      -- lossily encodable code points: the sub-codec cannot predict the bytes — correspondence skip
      let m := if lossy b || foreign b then " ".intercalate (i.drop 1) else modelOut e b
      ((), m, oracle e b i)
    | none => ((), "bad-case", "FAIL bad-case")

end Driver.Asset
