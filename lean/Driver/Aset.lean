/-
Driver family `aset` (C17).  Case line
  `<id> aset <meta> c:<clip,…> s:<label,slot1,…>*`
(names: `~` absent, `-` empty, else hex of UTF-8; lists comma separated after a 2-char tag).
Implementation / model line after the id:
  `panic` | `err` | `ok <data-size|?> <bytes-hex> rr-err|rr-panic`
  | `ok <data-size> <bytes-hex> rr-ok <re-read value> <same|hex|err|panic>`
where the re-read value is `<meta>/c:…/s:…/…` and the last field is the re-serialisation of the
re-read value compared with the first image.
-/
import Driver.Common
import MilaModel.Model.Aset
import MilaModel.Spec.Aset

namespace Driver.Aset
open Mila Mila.Aset

def optOf (s : String) : Option Bytes := if s == "~" then none else some (hexOrBad s)

def listOf (s : String) : List (Option Bytes) :=
  let body := (s.drop 2).toString
  if body.isEmpty then [] else (body.splitOn ",").map optOf

def showOpt : Option Bytes → String
  | none => "~"
  | some b => hexOfBytes b

def showList (tag : String) (l : List (Option Bytes)) : String :=
  tag ++ ",".intercalate (l.map showOpt)

def showFile (f : ASetFile) : String :=
  "/".intercalate (showOpt f.metaStr :: showList "c:" f.animClipTable :: f.sets.map (showList "s:"))

def fileOf (c : List String) : Option ASetFile :=
  match c with
  | _ :: "aset" :: m :: clip :: sets => some ⟨optOf m, listOf clip, sets.map listOf⟩
  | _ => none

/-- The model's line: serialize → parse → from_archive → serialize. -/
def modelOut (f : ASetFile) : String :=
  match serialize sjisSub f with
  | .panic => "panic"
  | .err _ => "err"
  | .ok bytes =>
    match BinArchive.parse sjisSub .little bytes with
    | .ok a =>
      let head := "ok " ++ toString a.size ++ " " ++ hexOfBytes bytes
      match fromArchive a with
      | .ok f' =>
        let re := match serialize sjisSub f' with
          | .ok b2 => if b2 = bytes then "same" else hexOfBytes b2
          | .err _ => "err"
          | .panic => "panic"
        head ++ " rr-ok " ++ showFile f' ++ " " ++ re
      | .err _ => head ++ " rr-err"
      | .panic => head ++ " rr-panic"
    | .err _ => "ok ? " ++ hexOfBytes bytes ++ " rr-err"
    | .panic => "ok ? " ++ hexOfBytes bytes ++ " rr-panic"

/-- A name of the property's domain: NUL-free and represented losslessly by the sub-codec. -/
def nameOk (n : Option Bytes) : Bool :=
  match n with
  | none => true
  | some s =>
    match sjisSub.enc s with
    | some b => !b.contains 0 && sjisSub.dec b == s
    | none => false

def inDomain (f : ASetFile) : Bool :=
  decide (Spec.Aset.WF f.animClipTable f.sets) && nameOk f.metaStr && f.animClipTable.all nameOk
    && f.sets.all (fun s => s.all nameOk)

/-- The specification judged on the implementation's output line (independent of the model). -/
def oracle (f : ASetFile) (i : List String) : String :=
  if !inDomain f then "ok skip out-of-domain" else
  match i with
  | [_, "ok", size, bytes, "rr-ok", value, re] =>
    let expect := Spec.Aset.dataSize f.sets
    if size != toString expect then
      "FAIL size: data section is " ++ size ++ " bytes, the formula gives " ++ toString expect
    else if Spec.Aset.wordAt (hexOrBad bytes) 4 != some expect then
      "FAIL size: header data-size word differs from the formula " ++ toString expect
    else if value != showFile f then "FAIL roundtrip: re-read value differs from the input"
    else if re != "same" then "FAIL idempotent: re-serialising the re-read value gives other bytes"
    else "ok"
  | _ :: "panic" :: _ => "FAIL panic"
  | _ :: "err" :: _ => "FAIL serialize failed"
  | _ => "FAIL roundtrip: the serialised file could not be re-read"

def family : Family where
  State := Unit
  init := ()
  step := fun _ c i =>
    match fileOf c with
    | some f => ((), modelOut f, oracle f i)
    | none => ((), "bad-case", "FAIL bad-case")

end Driver.Aset
