/-
Driver family `aset` (C17).  Case line
  `<id> aset <meta> c:<clip,…> s:<label,slot1,…>*`
(names: `~` absent, `-` empty, else hex of UTF-8; lists comma separated after a 2-char tag).
Implementation / model line after the id:
  `panic` | `err` | `ok <data-size|?> <bytes-hex> rr-err|rr-panic`
  | `ok <data-size> <bytes-hex> rr-ok <re-read value> <same|hex|err|panic>`
where the re-read value is `<meta>/c:…/s:…/…` and the last field is the re-serialisation of the
re-read value compared with the first image.
-/
import Driver.Common
import MilaModel.Model.Aset
import MilaModel.Spec.Aset

namespace Driver.Aset
open Mila Mila.Aset

def optOf (s : String) : Option Bytes := if s == "~" then none else some (hexOrBad s)

def listOf (s : String) : List (Option Bytes) :=
  let body := (s.drop 2).toString
  if body.isEmpty then [] else (body.splitOn ",").map optOf

def showOpt : Option Bytes → String
  | none => "~"
  | some b => hexOfBytes b

def showList (tag : String) (l : List (Option Bytes)) : String :=
  tag ++ ",".intercalate (l.map showOpt)

def showFile (f : ASetFile) : String :=
  "/".intercalate (showOpt f.metaStr :: showList "c:" f.animClipTable :: f.sets.map (showList "s:"))

def fileOf (c : List String) : Option ASetFile :=
  match c with
  | _ :: "aset" :: m :: clip :: sets => some ⟨optOf m, listOf clip, sets.map listOf⟩
  -- second use: the same round trip after other (failing) calls on the thread — same expected line
  | _ :: "aset-after" :: m :: clip :: sets => some ⟨optOf m, listOf clip, sets.map listOf⟩
  | _ => none

/-- The model's line: serialize → parse → from_archive → serialize. -/
def modelOut (f : ASetFile) : String :=
  match serialize sjisSub f with
  | .panic => "panic"
  | .err _ => "err"
  | .ok bytes =>
    match BinArchive.parse sjisSub .little bytes with
    | .ok a =>
      let head := "ok " ++ toString a.size ++ " " ++ hexOfBytes bytes
      match fromArchive a with
      | .ok f' =>
        let re := match serialize sjisSub f' with
          | .ok b2 => if b2 = bytes then "same" else hexOfBytes b2
          | .err _ => "err"
          | .panic => "panic"
        head ++ " rr-ok " ++ showFile f' ++ " " ++ re
      | .err _ => head ++ " rr-err"
      | .panic => head ++ " rr-panic"
    | .err _ => "ok ? " ++ hexOfBytes bytes ++ " rr-err"
    | .panic => "ok ? " ++ hexOfBytes bytes ++ " rr-panic"

/-- A name of the property's domain: NUL-free and represented losslessly by the sub-codec. -/
def nameOk (n : Option Bytes) : Bool :=
  match n with
  | none => true
  | some s =>
    match sjisSub.enc s with
    | some b => !b.contains 0 && sjisSub.dec b == s
    | none => false

/-- Does `pat` occur in `s`? -/
def hasInfix (pat : Bytes) : Bytes → Bool
  | [] => pat.isEmpty
  | b :: rest => pat.isPrefixOf (b :: rest) || hasInfix pat rest

/-- The three code points Shift-JIS encodes *lossily* (U+00A5 → 0x5C, U+203E → 0x7E,
U+2212 → U+FF0D), in UTF-8.  Strings containing them are outside the property's quantifier
("Shift-JIS-representable"), and the sub-codec model cannot predict their bytes. -/
def lossyName (n : Option Bytes) : Bool :=
  match n with
  | none => false
  | some s => hasInfix [0xC2, 0xA5] s || hasInfix [0xE2, 0x80, 0xBE] s || hasInfix [0xE2, 0x88, 0x92] s

def allNames (f : ASetFile) : List (Option Bytes) :=
  f.metaStr :: f.animClipTable ++ f.sets.flatMap id

/-- Shape of the property's domain (257 clip names, 257-entry sets). -/
def shapeOk (f : ASetFile) : Bool := decide (Spec.Aset.WF f.animClipTable f.sets)

/-- Every string lies in the codec's lossless domain. -/
def namesOk (f : ASetFile) : Bool := (allNames f).all nameOk

def lossy (f : ASetFile) : Bool := (allNames f).any lossyName

/-- Code points outside the sub-codec that real Shift-JIS may encode (U+4E0A, U+300A, U+FF0A,
U+4E5C, U+4E00, U+4E6E — low byte like '\n', '\\', NUL, 'n'), in UTF-8.  The model cannot encode
them: correspondence skip; the oracle demands refusal or an exact round trip. -/
def foreignName (n : Option Bytes) : Bool :=
  match n with
  | none => false
  | some s => [[0xE4, 0xB8, 0x8A], [0xE3, 0x80, 0x8A], [0xEF, 0xBC, 0x8A], [0xE4, 0xB9, 0x9C],
      [0xE4, 0xB8, 0x80], [0xE4, 0xB9, 0xAE]].any (fun (pat : Bytes) => hasInfix pat s)

def foreign (f : ASetFile) : Bool := (allNames f).any foreignName

/-- The specification judged on the implementation's output line (independent of the model). -/
def oracle (f : ASetFile) (i : List String) : String :=
  if !shapeOk f then "ok skip out-of-domain" else
  if lossy f then "ok skip lossy-codepoint" else
  -- a string the codec cannot represent: refusing to serialise is fine; but whatever `serialize`
  -- accepts must be re-read exactly (the clauses below)
  if !namesOk f && i.getD 1 "" == "err" then "ok refused" else
  match i with
  | [_, "ok", size, bytes, "rr-ok", value, re] =>
    let expect := Spec.Aset.dataSize f.sets
    if size != toString expect then
      "FAIL size: data section is " ++ size ++ " bytes, the formula gives " ++ toString expect
    else if Spec.Aset.wordAt (hexOrBad bytes) 4 != some expect then
      "FAIL size: header data-size word differs from the formula " ++ toString expect
    else if value != showFile f then "FAIL roundtrip: re-read value differs from the input"
    else if re != "same" then "FAIL idempotent: re-serialising the re-read value gives other bytes"
    else "ok"
  | _ :: "ok" :: _ :: _ :: "rr-ok" :: _ :: _ :: "unstable" :: _ =>
    "FAIL roundtrip: the same round trip gives different results after other (failing) calls on the thread"
  | _ :: "panic" :: _ => "FAIL panic"
  | _ :: "err" :: _ => "FAIL serialize failed"
  | _ => "FAIL roundtrip: the serialised file could not be re-read"

def family : Family where
  State := Unit
  init := ()
  step := fun _ c i =>
    match fileOf c with
    | some f =>
      -- lossily encodable code points: the sub-codec cannot predict the bytes — correspondence skip
      let m := if lossy f || foreign f then " ".intercalate (i.drop 1) else modelOut f
      ((), m, oracle f i)
    | none => ((), "bad-case", "FAIL bad-case")

end Driver.Aset
