/- Driver family `aset`: C17 — animation sets.  (stub: replace `family`) -/
import Driver.Common

namespace Driver.Aset
open Mila

def family : Family where
  State := Unit
  init := ()
  step := fun _ _ _ => ((), "unimplemented", "FAIL unimplemented")

end Driver.Aset
