import Driver.Common
import MilaModel.Model.Localize
import MilaModel.Spec.LocalizeTable

namespace Driver.Loc
open Mila Mila.Localize

def gameOf : String → Option Game
  | "NoOp" => some .NoOp | "FE9" => some .FE9 | "FE10" => some .FE10 | "FE13" => some .FE13
  | "FE14" => some .FE14 | "FE15" => some .FE15 | _ => none
def langOf : String → Option Language
  | "EnglishNA" => some .EnglishNA | "EnglishEU" => some .EnglishEU | "Japanese" => some .Japanese
  | "Spanish" => some .Spanish | "French" => some .French | "Italian" => some .Italian
  | "German" => some .German | "Dutch" => some .Dutch | _ => none

def sGame : Game → Option Spec.Loc.Game
  | .NoOp => none | .FE9 => some .FE9 | .FE10 => some .FE10 | .FE13 => some .FE13
  | .FE14 => some .FE14 | .FE15 => some .FE15
def sLang : Language → Spec.Loc.Language
  | .EnglishNA => .EnglishNA | .EnglishEU => .EnglishEU | .Japanese => .Japanese
  | .Spanish => .Spanish | .French => .French | .Italian => .Italian | .German => .German
  | .Dutch => .Dutch

/-- Spec oracle on the implementation's answer.  Only paths inside the property's domain are
judged: relative paths of plain components (optional single trailing slash), plus the listed
degenerate paths. -/
def oracle (g : Game) (lang : Language) (path : Bytes) (impl : List String) : String :=
  if impl.getD 1 "" == "panic" then "FAIL panic" else
  match sGame g with
  | none => "ok"        -- NoOp localizer: not part of the property
  | some sg =>
    let pieces := splitOn' Spec.Loc.slash path
    -- drop a single trailing slash
    let pieces := if pieces.length ≥ 2 ∧ pieces.getLast? = some [] then pieces.dropLast else pieces
    if pieces.all (fun c => decide (Spec.Loc.Plain c)) then
      let dir := pieces.dropLast
      let l := pieces.getLast?.getD []
      match Spec.Loc.expected sg (sLang lang) dir l with
      | none => if impl.getD 1 "" == "err" && impl.getD 2 "" == "Unsupported" then "ok"
                else "FAIL unsupported pair must be an error"
      | some e =>
        if impl.getD 1 "" == "ok" && impl.getD 2 "" == hexOfBytes e then "ok"
        else "FAIL expected " ++ hexOfBytes e
    else if path = [] ∨ path = [Spec.Loc.slash] ∨ path = [0x2E, 0x2E] then
      if impl.getD 1 "" == "err" then "ok" else "FAIL degenerate path must be an error"
    else "ok skip"

def family : Family where
  State := Unit
  init := ()
  step := fun _ c i =>
    match c with
    | [_, "loc", g, l, p] =>
      match gameOf g, langOf l with
      | some g, some l =>
        let path := hexOrBad p
        ((), resStr hexOfBytes (localize g l path), oracle g l path i)
      | _, _ => ((), "bad-case", "FAIL bad-case")
    | _ => ((), "bad-case", "FAIL bad-case")

end Driver.Loc
